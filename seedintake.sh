#!/bin/bash
# ./seedintake.sh <Cxx> <round-dir> <suffix> [props...]: take a sub-agent's change from <round-dir>/<Cxx> (patch.diff, demo.py), confirm it in a
# FRESH scratch worktree (demo passes without / fails with the change, repository tests pass with it), store it under
# seeded/<Cxx>_<suffix>/ and run the property's check against it in a scratch worktree (seedtest2.sh).
p=$1; rd=$2; suf=$3; shift 3
props=${@:-$p}
src=$rd/$p
d=/verif/seeded/${p}_$suf
mkdir -p $d
cp $src/patch.diff $src/demo.py $d/ || exit 2
wt=/tmp/intake_$$_$p
git -C /repo worktree add -q --detach $wt HEAD || exit 2
trap 'git -C /repo worktree remove --force '$wt'; git -C /repo worktree prune' EXIT
cp $d/demo.py $wt/
(cd $wt && PYTHONPATH=$wt/src JAQALPAQ_RUN_EMULATOR=1 timeout 300 /venv/bin/python demo.py > /tmp/intake_$$_a.out 2>&1); a=$?
(cd $wt && git apply $d/patch.diff) || { echo "INTAKE $p: patch does not apply"; exit 2; }
(cd $wt && PYTHONPATH=$wt/src JAQALPAQ_RUN_EMULATOR=1 timeout 300 /venv/bin/python demo.py > /tmp/intake_$$_b.out 2>&1); b=$?
t=$(cd $wt && /venv/bin/python -m pytest -q -p no:cacheprovider --deselect tests/ipc/test_ipc.py 2>&1 | tail -1)
echo "INTAKE $p: demo without=$a with=$b ; tests with change: $t"
tail -3 /tmp/intake_$$_b.out
rm -f /tmp/intake_$$_a.out /tmp/intake_$$_b.out
cd /verif && ./seedtest2.sh $d/patch.diff $props
