#!/bin/bash
# ./seedtest.sh <patch.diff> <prop> [<prop> ...] : apply a seeded change to /repo, run the quick checks, undo it.
patch="$1"; shift
cd /repo || exit 2
if ! git diff --quiet; then echo "repo working tree not clean"; exit 2; fi
git apply "$patch" || { echo "patch does not apply"; exit 2; }
trap 'git -C /repo checkout -- . ' EXIT
for p in "$@"; do
  out=/tmp/seed_$p.out
  (cd /verif && ./check $p > $out 2>&1); rc=$?
  echo "== $p rc=$rc : $(grep -c '^VIOLATION' $out) violation line(s)"
  grep -A1 '^VIOLATION' $out | grep 'site=' | awk '{print $1, $2}' | sort | uniq -c | head -8
  tail -1 $out | cut -c1-200
done
