#!/bin/bash
# regression over the stored seeded changes: each is applied in a scratch worktree (never in /repo) and the check of
# the property it breaks must report a violation.  usage: ./seedall.sh [seed-dir-name ...]   (default: all)
cd "$(dirname "$0")"
seeds=${@:-$(ls seeded)}
miss=0
for s in $seeds; do
  d=seeded/$s
  [ -f $d/patch.diff ] || continue
  props=$(/venv/bin/python -c "
import json,sys
m=json.load(open('$d/meta.json'))
ps=[]
for c in m.get('caught_by',[]):
    p=c.split()[0]
    if p not in ps: ps.append(p)
print(' '.join(ps) or m.get('breaks',''))")
  out=$(./seedtest2.sh $d/patch.diff $props 2>&1 | grep '^== ')
  if echo "$out" | grep -q 'rc=1'; then echo "CAUGHT $s : $(echo $out | tr '\n' ' ')"; else echo "MISSED $s : $(echo $out | tr '\n' ' ')"; miss=1; fi
done
exit $miss
