------------------------------ MODULE Conform_Exec ------------------------------
(***************************************************************************)
(* Trace validation of executions (C03, C08, C09, C12, C13, C15).           *)
(* case = [id, inp: Prog (projection of the circuit handed to the run       *)
(*         entry point), n (qubits), obs]                                    *)
(* obs  = [cls, family (rule family named by the error message),            *)
(*         subs: Seq([k, vec: Seq(<<re,im>>), exact, probs: Seq(<<num,k>>)  *)
(*                    as exact squared moduli, readouts: Seq(Int),          *)
(*                    freq: Seq(Int), str_keys_ok, ...]),                   *)
(*         readouts: Seq([sub, value, str: Seq(0/1), index]),               *)
(*         visits:  Seq([sub, readout, value])        (hook H1),            *)
(*         applies: Seq([sub, gate, qind: Seq(Int), argv: Seq(Int)]) (H3)]  *)
(* Every recorded event is checked against the actions of the execution     *)
(* semantics of JaqalExec; a clause name is in the verdict iff it FAILS.    *)
(***************************************************************************)
EXTENDS JaqalExec, Json, IOUtils
Cases == JsonDeserialize(IOEnv.CASES)

\* site "run_ovr": the program is executed after let substitution under an override dictionary (C03: "let values and
\* overrides applied"); every other site runs the program as written.  Site "run_shared": the program is executed on a
\* backend object that has executed ANOTHER program before - judged exactly like a run on a fresh backend.
Ovr(c) == IF "ovr" \in DOMAIN c THEN c.ovr ELSE <<>>
Tree(c) == ExecTree(c.inp, Ovr(c))
NQ(c) == LET t == RegTabOf(c.inp, Ovr(c))
             fs == { r \in DOMAIN t : t[r].ok /\ r \in FundNames(c.inp) }
         IN IF fs = {} THEN 0 ELSE Len(t[CHOOSE r \in fs : TRUE].elems)
AllQ(c) == 0..(NQ(c) - 1)
CountsOK(m) ==      \* every loop count is a non-negative integer
  LET RECURSIVE Ck(_)
      Ck(x) == CASE x.k = "L" -> x.cnt.k = "num" /\ x.cnt.i /\ x.cnt.n >= 0 /\ Ck(x.c[1])
                 [] x.k \in {"S", "P"} -> \A j \in DOMAIN x.c : Ck(x.c[j])
                 [] OTHER -> TRUE
  IN Ck(m)
ValidProg(c) == ValidIn(c.inp, Ovr(c)) /\ CountsOK(Tree(c))

\* the subcircuit sequence the spec expects: for each pair, its gates (first visit) and its final state
ExpectedState(c, k) == LET sg == SubGates(Tree(c), k) IN
                       [visited |-> sg.visited, st |-> Emulate(sg.gates, NQ(c), c.inp), gates |-> sg.gates]

\* gates of subcircuit k that have a unitary, as the emulator must report them (hook H3)
UnitaryGates(c, gs) ==
  LET RECURSIVE Pick(_)
      Pick(j) == IF j > Len(gs) THEN <<>>
                 ELSE (IF GateCls(c.inp, gs[j].v) \notin {"idle", "busy"} /\ Mat(gs[j].v, CArgs(gs[j])).has
                       THEN <<[gate |-> gs[j].v, qind |-> QArgs(gs[j]), argv |-> CArgs(gs[j])]>> ELSE <<>>) \o Pick(j + 1)
  IN Pick(1)
AppliesOf(c, k) ==
  LET RECURSIVE Pick(_)
      Pick(j) == IF j > Len(c.obs.applies) THEN <<>>
                 ELSE (IF c.obs.applies[j].sub = k
                       THEN <<[gate |-> c.obs.applies[j].gate, qind |-> c.obs.applies[j].qind, argv |-> c.obs.applies[j].argv]>>
                       ELSE <<>>) \o Pick(j + 1)
  IN Pick(1)

\* hook H3b: the state after every gate application.  The recorded events of subcircuit k are folded through the
\* action ApplyGate of the emulator machine: event j must be the j-th gate with a unitary and must leave exactly the
\* state the action leaves.  Returns 0 if every step conforms, else the number of the first step that does not.
AppliedOf(c, k) ==
  LET RECURSIVE Pick(_)
      Pick(j) == IF j > Len(c.obs.applied) THEN <<>>
                 ELSE (IF c.obs.applied[j].sub = k THEN <<c.obs.applied[j]>> ELSE <<>>) \o Pick(j + 1)
  IN Pick(1)
RECURSIVE StepFrom(_, _, _, _, _, _)
StepFrom(st, ugs, evs, j, n, prog) ==
  IF j > Len(ugs) THEN 0
  ELSE LET st2 == ApplyGate(st, ugs[j], n, prog) IN
       IF evs[j].gate # ugs[j].v \/ ~evs[j].exact \/ evs[j].k # st2.k \/ evs[j].vec # [x \in 1..(2 ^ n) |-> st2.vec[x - 1]]
       THEN j ELSE StepFrom(st2, ugs, evs, j + 1, n, prog)
UnitaryOnly(c, gs) == SelectSeq(gs, LAMBDA g : GateCls(c.inp, g.v) \notin {"idle", "busy"} /\ Mat(g.v, CArgs(g)).has)

\* hook H2: the discovery walk, event by event.  The walker meets the gate statements in flat order; before each it has
\* a trace open or not and a number of subcircuits closed.  The expected sequence is the fold of the discovery machine
\* (P opens, M closes what is open, G changes nothing) over the flat events; a rejected program stops the walk, so the
\* recorded events must be a PREFIX of the expected ones, and the whole sequence when the program is executed.
RECURSIVE DiscFold(_, _, _, _)
DiscFold(flat, j, cur, n) ==
  IF j > Len(flat) THEN <<>>
  ELSE <<[gate |-> flat[j].g.v, open |-> cur, closed |-> n]>>
       \o (CASE flat[j].t = "P" -> DiscFold(flat, j + 1, TRUE, n)
              [] flat[j].t = "M" -> DiscFold(flat, j + 1, FALSE, IF cur THEN n + 1 ELSE n)
              [] OTHER -> DiscFold(flat, j + 1, cur, n))
DiscoverTraceBad(obs, flat, complete) ==
  LET exp == DiscFold(flat, 1, FALSE, 0) IN
  \/ Len(obs) > Len(exp)
  \/ \E j \in DOMAIN obs : j <= Len(exp) /\ obs[j] # exp[j]
  \/ (complete /\ Len(obs) # Len(exp))

Count(s, v) == Cardinality({ j \in DOMAIN s : s[j] = v })
ReadoutsOfSub(c, k) ==
  LET RECURSIVE Pick(_)
      Pick(j) == IF j > Len(c.obs.readouts) THEN <<>>
                 ELSE (IF c.obs.readouts[j].sub = k THEN <<c.obs.readouts[j].value>> ELSE <<>>) \o Pick(j + 1)
  IN Pick(1)

Clauses2(c) ==
  LET tree == Tree(c)
      valid == ValidProg(c)
      disc == DiscoverRule(tree)
      ovl == Overlap(tree, c.inp, AllQ(c))
      o == c.obs
      ok == o.cls = "ok"
      vis == VisitsOf(tree)
      shouldRun == disc.accept /\ ~ovl
      xs == c.site \in {"run", "outparse", "run_ovr", "run_shared"}
  IN
  \* ---- C16-ish: only JaqalError may escape, and the call terminates
  F("terminates", xs /\ o.cls = "timeout")
  \cup F("error_type", xs /\ valid /\ o.cls \notin {"ok", "jaqal_error", "timeout"})
  \* ---- C12
  \cup F("accept_iff", xs /\ valid /\ o.cls # "timeout" /\ ~ovl /\ (ok # disc.accept))
  \cup F("rule_named", xs /\ valid /\ ~ovl /\ ~disc.accept /\ o.cls = "jaqal_error" /\ o.family \notin disc.rules)
  \cup F("n_subcircuits", xs /\ valid /\ shouldRun /\ ok /\ Len(o.subs) # Len(disc.pairs))
  \* (trace validation of the discovery walk through hook H2; sites where exactly one discovery walk is recorded)
  \cup F("discover_trace", c.site \in {"run", "run_ovr"} /\ valid /\ o.hooked /\ o.cls \in {"ok", "jaqal_error"} /\
            DiscoverTraceBad(o.discover, Flat(tree), ok))
  \* ---- C13
  \cup F("reject_iff_overlap", xs /\ valid /\ o.cls # "timeout" /\
            ((ovl /\ ok) \/ (ovl /\ o.cls = "jaqal_error" /\ o.family \notin ({"overlap"} \cup disc.rules))))
  \* ---- C08
  \cup (IF xs /\ valid /\ shouldRun /\ ok /\ vis.indomain
        THEN F("visits", [j \in DOMAIN o.readouts |-> o.readouts[j].sub] # vis.visits)
             \cup F("readout_index", \E j \in DOMAIN o.readouts : o.readouts[j].index # j - 1)
             \cup F("hook_visits", o.hooked /\ [j \in DOMAIN o.visits |-> o.visits[j].sub] # vis.visits)
             \cup F("attribution", \E k \in DOMAIN o.subs : o.subs[k].readouts # ReadoutsOfSub(c, k - 1))
             \cup F("frequencies", \E k \in DOMAIN o.subs : \E v \in 0..(2 ^ NQ(c) - 1) :
                                      o.subs[k].freq[v + 1] # Count(o.subs[k].readouts, v))
        ELSE {})
  \* ---- C03 (subcircuits that are visited at least once)
  \cup (IF c.site \in {"run", "run_ovr", "run_shared"} /\ valid /\ shouldRun /\ ok /\ Len(o.subs) = Len(disc.pairs)
        THEN UNION { LET ex == ExpectedState(c, k) IN
                     IF ~ex.visited THEN {}
                     \* every gate with a unitary is applied, with its resolved qubits and arguments (also a rotation by
                     \* 1e-6: an argument of arbitrary real value is outside the exact family, so the state of such a
                     \* subcircuit is not recomputed, but the gate must still be applied - not skipped as "nearly identity")
                     ELSE F("applied_gates", o.hooked /\ AppliesOf(c, k - 1) # UnitaryGates(c, ex.gates))
                     \* one "applied" event per gate with a unitary, AFTER the state change
                     \cup F("applied_count", o.hooked /\ Len(AppliedOf(c, k - 1)) # Len(UnitaryOnly(c, ex.gates)))
                     \cup F("step_vectors", o.hooked /\ ~HasRealArg(ex.gates) /\ Len(AppliedOf(c, k - 1)) = Len(UnitaryOnly(c, ex.gates)) /\
                              StepFrom(Init0(NQ(c)), UnitaryOnly(c, ex.gates), AppliedOf(c, k - 1), 1, NQ(c), c.inp) # 0)
                     \cup IF HasRealArg(ex.gates) THEN {}
                     ELSE F("exact_repr", ~o.subs[k].exact)
                          \cup F("vector", o.subs[k].exact /\
                                   (o.subs[k].k # ex.st.k \/ o.subs[k].vec # [x \in 1..(2 ^ NQ(c)) |-> ex.st.vec[x - 1]]))
                          \cup F("nonzero_prob", o.subs[k].exact /\ \E j \in DOMAIN o.subs[k].readouts :
                                   LET a == o.subs[k].vec[o.subs[k].readouts[j] + 1] IN a[1] = 0 /\ a[2] = 0)
                          \cup F("probabilities", o.subs[k].exact /\ ~o.subs[k].probs_match)
                   : k \in DOMAIN o.subs }
        ELSE {})
  \* ---- hardware output lists (site "outparse"): strings and integers are interpreted identically
  \cup F("str_int_same", c.site = "outparse" /\ ok /\ valid /\ shouldRun /\ vis.indomain /\ [j \in DOMAIN o.readouts |-> o.readouts[j].value] # c.outs)
  \* ---- C13: used-qubit analysis of the whole circuit and of every top-level statement (site "used")
  \cup (IF c.site = "used" /\ valid
        THEN LET env == Env(c.inp, <<>>)
                 tab == RegTab(c.inp, env)
                 usedOfStmt(j) == UsedOf(M(c.inp.body[j], c.inp, env, tab, EmptyFn, FALSE, 0), c.inp, AllQ(c))
                 hasBusy(j) == LET RECURSIVE B(_)
                                   B(m) == CASE m.k = "G" -> GateCls(c.inp, m.v) = "busy"
                                             [] m.k \in {"L", "U"} -> B(m.c[1])
                                             [] m.k \in {"S", "P"} -> \E x \in DOMAIN m.c : B(m.c[x])
                                             [] OTHER -> FALSE
                               IN B(M(c.inp.body[j], c.inp, env, tab, EmptyFn, FALSE, 0))
             IN F("used_exact_circuit", c.used_all.cls # "ok" \/ SeqRange(c.used_all.idxs) # UsedOf(Meaning(c.inp, <<>>), c.inp, AllQ(c)))
                \cup F("used_exact_statement", \E j \in DOMAIN c.used_stmts :
                          ~hasBusy(j) /\ (c.used_stmts[j].cls # "ok" \/ SeqRange(c.used_stmts[j].idxs) # usedOfStmt(j)))
        ELSE {})
  \* ---- C09: the same program written with explicit prepare_all / measure_all behaves identically (site "explicit")
  \cup (IF c.site = "explicit"
        THEN F("same_as_explicit", o.cls # c.obs2.cls \/ o.family # c.obs2.family \/ o.readouts # c.obs2.readouts
                                   \/ [k \in DOMAIN o.subs |-> <<o.subs[k].k, o.subs[k].vec, o.subs[k].readouts>>] #
                                      [k \in DOMAIN c.obs2.subs |-> <<c.obs2.subs[k].k, c.obs2.subs[k].vec, c.obs2.subs[k].readouts>>])
        ELSE {})
  \* ---- C15: views recorded by the harness from the result objects
  \* an unnormalised distribution makes the readout sampler itself fail with a non-Jaqal exception
  \cup F("normalised_sampling", c.site = "approx" /\ valid /\ o.cls \notin {"ok", "jaqal_error", "timeout"})
  \* (site "approx": the same program over gate matrices that are unitary to 8 digits only; site "rerun": executed twice)
  \* (site "longrun": one outcome recorded 70 000 times - tallies beyond 16 bits)
  \cup (IF (xs \/ c.site \in {"rerun", "approx", "longrun"}) /\ ok THEN
          F("freq_counts", \E k \in DOMAIN o.subs : \E v \in 0..(2 ^ NQ(c) - 1) :
                              o.subs[k].freq[v + 1] # Count(o.subs[k].readouts, v))
          \cup F("as_str", \E j \in DOMAIN o.readouts : o.readouts[j].str # BitsOf(o.readouts[j].value, NQ(c)))
          \cup F("by_str_order", \E k \in DOMAIN o.subs :
                   o.subs[k].str_keys # [v \in 1..(2 ^ NQ(c)) |-> BitsOf(v - 1, NQ(c))])
          \cup F("views_agree", \E k \in DOMAIN o.subs : ~o.subs[k].views_agree)
          \cup F("normalised", \E k \in DOMAIN o.subs : ~o.subs[k].normalised)
        ELSE {})

Triggers2(c) ==
  LET tree == Tree(c)
      flat == Flat(tree)
  IN F("ZeroCountLoopOverSubcircuit",
       LET RECURSIVE Z(_)
           Z(m) == CASE m.k = "L" -> (m.cnt.k = "num" /\ m.cnt.n = 0 /\ FlatSize(m.c[1]) > 0) \/ Z(m.c[1])
                     [] m.k \in {"S", "P"} -> \E j \in DOMAIN m.c : Z(m.c[j])
                     [] OTHER -> FALSE
       IN Z(tree))
     \cup F("AliasedQubit", \E j \in DOMAIN BodyStmts(c.inp) :
              LET s == BodyStmts(c.inp)[j] IN s.k = "gate" /\ \E a \in DOMAIN s.args : ArgRefsAlias(s.args[a], EmptyFn, FundNames(c.inp)))
     \cup F("UnrolledPrepareWithoutMeasure",
            LET un == Unroll(tree)
                us == Scan([j \in DOMAIN un |-> flat[un[j]].t], un)
            IN Cardinality({ j \in DOMAIN un : flat[un[j]].t = "P" }) > Len(us.pairs))
     \cup F("RepeatedPrepareInLoop",
            \E j \in DOMAIN flat : flat[j].t = "P" /\ flat[j].path # <<>>)
     \cup F("PrepareBeforeLoopWithPairInside",
            LET sc == FlatScan(flat) IN
            \E x \in DOMAIN sc.pairs : flat[sc.pairs[x][1]].path # <<>> /\ ~LoopRuleBroken(flat, sc.pairs))

VARIABLE i
Init == i = 1
Case == /\ i <= Len(Cases)
        /\ i' = i + 1
        /\ LET cl == Clauses2(Cases[i]) IN
             \* (no trigger predicates for the 70 000-iteration run: they unroll the program)
             cl = {} \/ PrintT(<<"V", Cases[i].id, cl, IF Cases[i].site = "longrun" THEN {} ELSE Triggers2(Cases[i])>>)
Done == i = Len(Cases) + 1 /\ i' = i + 1 /\ PrintT(<<"DONE", i - 1>>)
Next == Case \/ Done
Spec == Init /\ [][Next]_i
=============================================================================
