----------------------------- MODULE Conform_GateDef -----------------------------
(* Trace validation of gate-definition calls and of idle / stretched variants (C18).
   kind "call": [sig, args, pos: [cls], kw: [cls], same (both accepted and equal statements),
                 missing: [cls], unknown: [cls], mixed: [cls]]
   kind "idle": [name, has (an idle gate was derived), kinds, parent_kinds, uses_qubits, unitary]
   kind "idle_st": [name, has, has_stretched, kinds, parent_kinds (of the stretched gate), base_kinds, uses_qubits, unitary]
   kind "stretch": [name, kinds, parent_kinds, cargs, factor, exact, k, m (matrix as rows of <<re,im>>)]  *)
EXTENDS JaqalGateDef, JaqalExec, IOUtils
Cases == JsonDeserialize(IOEnv.CASES)

CallClauses(c) ==
  LET ok == CallOK(c.sig, c.args) IN
  F("accept_iff", (c.pos.cls = "ok") # ok)
  \cup F("kw_accept_iff", Len(c.args) = Len(c.sig) /\ Len(c.args) > 0 /\ ((c.kw.cls = "ok") # ok))
  \cup F("error_type", c.pos.cls \notin {"ok", "jaqal_error"} \/ c.kw.cls \notin {"ok", "jaqal_error", "skipped"})
  \cup F("pos_eq_kw", ok /\ Len(c.args) > 0 /\ c.pos.cls = "ok" /\ c.kw.cls = "ok" /\ ~c.same)
  \cup F("bad_keywords_rejected", c.missing.cls \notin {"jaqal_error", "skipped"} \/ c.unknown.cls \notin {"jaqal_error", "skipped"}
                                    \/ c.mixed.cls \notin {"jaqal_error", "skipped"})

IdleClauses(c) ==
  F("idle_exists_iff", c.has # (c.name \notin {"prepare_all", "measure_all"}))
  \cup (IF ~c.has THEN {} ELSE
        F("same_signature", c.kinds # c.parent_kinds)
        \cup F("no_qubits", c.uses_qubits)
        \cup F("no_effect", c.unitary))

\* stretched_gates applied to a set that already holds idle gates: the idle gate I_<g> yields both <g><suffix>
\* and its idle companion I_<g><suffix>, which is the idle gate OF THE STRETCHED gate (same signature, stretch included)
IdleStClauses(c) ==
  F("idle_st_exists", ~c.has \/ ~c.has_stretched)
  \cup (IF ~c.has \/ ~c.has_stretched THEN {} ELSE
        F("stretched_extra_float", c.parent_kinds # Append(c.base_kinds, "float"))
        \cup F("same_signature", c.kinds # c.parent_kinds)
        \cup F("no_qubits", c.uses_qubits)
        \cup F("no_effect", c.unitary))

\* a definition is called, then stretched, then the stretched definition is called with the stretch factor last
StretchCallClauses(c) ==
  F("parent_call", c.parent_call # "ok")
  \cup F("stretched_exists", ~c.has)
  \cup F("stretched_accept", c.has /\ (c.pos.cls # "ok" \/ c.kw.cls # "ok"))
  \cup F("pos_eq_kw", c.has /\ c.pos.cls = "ok" /\ c.kw.cls = "ok" /\ ~c.same)
  \cup F("stretched_arity", c.has /\ c.short.cls # "jaqal_error")

MatRows(mt) == [r \in 1..mt.d |-> [cc \in 1..mt.d |-> mt.m[r][cc]]]
StretchClauses(c) ==
  LET mt == Mat(c.name, c.cargs) IN
  F("extra_float", c.kinds # Append(c.parent_kinds, "float"))
  \cup F("same_action", mt.has /\ (c.cls # "ok" \/ ~c.exact \/ c.k # mt.e \/ c.m # MatRows(mt)))
  \cup F("no_unitary_kept", ~mt.has /\ c.cls # "none")

GClauses(c) == CASE c.kind = "call" -> CallClauses(c) [] c.kind = "idle" -> IdleClauses(c) [] c.kind = "idle_st" -> IdleStClauses(c) [] c.kind = "stretch_call" -> StretchCallClauses(c)
                 [] c.kind = "stretch" -> StretchClauses(c) [] OTHER -> {"unknown_kind"}

VARIABLE i
Init == i = 1
Case == /\ i <= Len(Cases)
        /\ i' = i + 1
        /\ LET cl == GClauses(Cases[i]) IN cl = {} \/ PrintT(<<"V", Cases[i].id, cl, {}>>)
Done == i = Len(Cases) + 1 /\ i' = i + 1 /\ PrintT(<<"DONE", i - 1>>)
Next == Case \/ Done
Spec == Init /\ [][Next]_i
=============================================================================
