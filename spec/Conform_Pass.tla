------------------------------ MODULE Conform_Pass ------------------------------
(***************************************************************************)
(* Trace validation of the transformation passes (C04, C05, C06, C09):      *)
(* each case records one call of a pass on a real circuit:                  *)
(*   [id, site, inp: Prog (projection of the input circuit), ovr,           *)
(*    out: [cls, prog (projection of the result)], prep, meas]              *)
(* The clauses (module PassClauses) compare the recorded result with the    *)
(* reference semantics of JaqalSem.                                         *)
(***************************************************************************)
EXTENDS PassClauses, Json, IOUtils
Cases == JsonDeserialize(IOEnv.CASES)

VARIABLE i
Init == i = 1
Case == /\ i <= Len(Cases)
        /\ i' = i + 1
        /\ LET cl == Clauses(Cases[i]) IN
             cl = {} \/ PrintT(<<"V", Cases[i].id, cl, Triggers(Cases[i])>>)
Done == i = Len(Cases) + 1 /\ i' = i + 1 /\ PrintT(<<"DONE", i - 1>>)
Next == Case \/ Done
Spec == Init /\ [][Next]_i
=============================================================================
