------------------------------ MODULE JaqalValidate ------------------------------
(***************************************************************************)
(* Validation comments (jaqalpaq.emulator._validator): an execution result  *)
(* is written out as comment lines                                           *)
(*     // EXPECTED READOUTS          // EXPECTED PROBABILITIES               *)
(*     // <str> <int> <sub>          // SUBCIRCUIT <k>                       *)
(*                                   // <str> <int> <probability>            *)
(* appended to a program, read back by a LINE-LEVEL STATE MACHINE           *)
(* (section, subcircuit index, what was collected), and compared with a     *)
(* fresh execution.  This is a consumer of the result views of C15 and of   *)
(* the readout attribution of C08: qubit 0 is the leftmost character of     *)
(* <str> and the least-significant bit of <int>, readouts are listed in     *)
(* visit order with the flat-order number of their subcircuit, outcomes of  *)
(* a subcircuit in integer order.                                           *)
(*                                                                         *)
(* A line is abstracted (harness/valid.py, no semantics: strip, startswith, *)
(* split, character classes) to                                             *)
(*   [cm  : the stripped line starts with "//",                             *)
(*    s   : what follows "//", stripped ("" for a non-comment line),        *)
(*    w   : its words, each [s, k \in {"nat","alpha","other"}, n (value of  *)
(*          a "nat" word, else -1), b (the word as a sequence of 0/1 if it  *)
(*          consists of those characters, else <<>>), pn (p * 2^30 if the   *)
(*          word is a float with that value integral, else -1)]]            *)
(***************************************************************************)
EXTENDS Naturals, Integers, Sequences, FiniteSets, TLC

PScale == 1073741824     \* 2^30

\* ------------------------------------------------------------------ the reader: one action per line
\* state: sec \in {"none","meas","prob","error"}, sidx, meas / prob: what was collected ("has*": section seen),
\*        verdict \in {"ok", "value_error", "open"}.  "open": the input is outside what the functions document
\*        (a probability line before any SUBCIRCUIT line, an exception name outside the white list, a numeric
\*        word that is neither a plain natural number nor alphabetic): nothing is asserted about it.
VInit == [sec |-> "none", sidx |-> -1, hasMeas |-> FALSE, meas |-> <<>>, hasProb |-> FALSE, prob |-> <<>>,
          hasErr |-> FALSE, verdict |-> "ok"]

IsHeader(s) == s \in {"EXPECTED READOUTS", "EXPECTED PROBABILITIES", "EXPECTED ERROR"}

\* how Python's int() / float() treat a word, as far as the machine needs it
IntWord(w) == IF w.k = "nat" THEN "ok" ELSE IF w.k = "alpha" THEN "value_error" ELSE "open"
FloatWord(w) == IF w.k = "nat" \/ w.pn >= 0 THEN "ok" ELSE "open"

ResetLine(ln) == ~ln.cm \/ ln.s = ""

VStep(st, ln) ==
  IF st.verdict # "ok" THEN st
  ELSE IF ResetLine(ln) THEN [st EXCEPT !.sec = "none", !.sidx = -1]
  ELSE CASE st.sec = "meas" ->
              IF Len(ln.w) # 3 THEN [st EXCEPT !.verdict = "value_error"]
              ELSE IF IntWord(ln.w[2]) # "ok" THEN [st EXCEPT !.verdict = IntWord(ln.w[2])]
              ELSE IF IntWord(ln.w[3]) # "ok" THEN [st EXCEPT !.verdict = IntWord(ln.w[3])]
              ELSE [st EXCEPT !.meas = Append(@, [s |-> ln.w[1].s, b |-> ln.w[1].b, v |-> ln.w[2].n, sub |-> ln.w[3].n])]
         [] st.sec = "prob" ->
              IF ln.w[1].s = "SUBCIRCUIT" /\ Len(ln.w) >= 2
              THEN IF Len(ln.w) > 2 THEN [st EXCEPT !.verdict = "open"]        \* int("1 2"): ValueError, int("1_2")...: left open
                   ELSE IF IntWord(ln.w[2]) # "ok" THEN [st EXCEPT !.verdict = IntWord(ln.w[2])]
                   ELSE IF ln.w[2].n # st.sidx + 1 THEN [st EXCEPT !.verdict = "value_error"]
                   ELSE [st EXCEPT !.sidx = ln.w[2].n, !.prob = Append(@, <<>>)]
              ELSE IF Len(ln.w) # 3 THEN [st EXCEPT !.verdict = "value_error"]
              ELSE IF FloatWord(ln.w[3]) # "ok" THEN [st EXCEPT !.verdict = "open"]
              ELSE IF st.sidx < 0 THEN [st EXCEPT !.verdict = "open"]           \* KeyError in the implementation
              ELSE IF IntWord(ln.w[2]) # "ok" THEN [st EXCEPT !.verdict = IntWord(ln.w[2])]
              ELSE IF \E e \in DOMAIN st.prob[st.sidx + 1] :
                         st.prob[st.sidx + 1][e].s = ln.w[1].s \/ st.prob[st.sidx + 1][e].v = ln.w[2].n
                   THEN [st EXCEPT !.verdict = "open"]                          \* a repeated key overwrites: left open
              ELSE [st EXCEPT !.prob[st.sidx + 1] = Append(@, [s |-> ln.w[1].s, b |-> ln.w[1].b, v |-> ln.w[2].n,
                                                                 pn |-> ln.w[3].pn])]
         [] st.sec = "error" -> [st EXCEPT !.verdict = "open", !.hasErr = TRUE]
         [] OTHER ->      \* no section open: a header opens one, any other comment is ignored
              IF ln.s = "EXPECTED READOUTS" THEN [st EXCEPT !.sec = "meas", !.hasMeas = TRUE, !.meas = <<>>]
              ELSE IF ln.s = "EXPECTED PROBABILITIES" THEN [st EXCEPT !.sec = "prob", !.hasProb = TRUE, !.prob = <<>>]
              ELSE IF ln.s = "EXPECTED ERROR" THEN [st EXCEPT !.sec = "error"]
              ELSE st

RECURSIVE VFold(_, _, _)
VFold(st, lines, j) == IF j > Len(lines) THEN st ELSE VFold(VStep(st, lines[j]), lines, j + 1)
VRead(lines) == VFold(VInit, lines, 1)

\* ------------------------------------------------------------------ the writer
Bit(v, j) == (v \div (2 ^ j)) % 2
BitsOf(v, n) == [j \in 1..n |-> Bit(v, j - 1)]

\* abstract lines the writer must produce for an execution with readouts rd = Seq([sub, value]) over nq qubits and
\* exact probabilities pr[k][v+1] (numerator over 2^30, -1: not representable, then the value is not compared)
HdrLine(s) == [t |-> "hdr", s |-> s, b |-> <<>>, v |-> 0, x |-> 0]
BlankLine == [t |-> "blank", s |-> "", b |-> <<>>, v |-> 0, x |-> 0]
GenLines(rd, nq, pr) ==
  <<HdrLine("EXPECTED READOUTS")>>
  \o (IF rd = <<>> THEN <<BlankLine>> ELSE [j \in DOMAIN rd |-> [t |-> "meas", s |-> "", b |-> BitsOf(rd[j].value, nq), v |-> rd[j].value, x |-> rd[j].sub]])
  \o <<BlankLine, HdrLine("EXPECTED PROBABILITIES")>>
  \o LET RECURSIVE Subs(_)
         Subs(k) == IF k > Len(pr) THEN <<>>
                    ELSE <<[t |-> "sub", s |-> "", b |-> <<>>, v |-> k - 1, x |-> 0]>>
                         \o [v \in 1..(2 ^ nq) |-> [t |-> "prob", s |-> "", b |-> BitsOf(v - 1, nq), v |-> v - 1, x |-> pr[k][v]]]
                         \o Subs(k + 1)
     IN Subs(1)

\* does the observed line ln (abstraction above) spell the abstract line a?
LineIs(a, ln) ==
  CASE a.t = "blank" -> ~ln.cm /\ ln.s = ""
    [] a.t = "hdr" -> ln.cm /\ ln.s = a.s
    [] a.t = "meas" -> ln.cm /\ Len(ln.w) = 3 /\ ln.w[1].b = a.b /\ ln.w[2].k = "nat" /\ ln.w[2].n = a.v
                       /\ ln.w[3].k = "nat" /\ ln.w[3].n = a.x
    [] a.t = "sub" -> ln.cm /\ Len(ln.w) = 2 /\ ln.w[1].s = "SUBCIRCUIT" /\ ln.w[2].k = "nat" /\ ln.w[2].n = a.v
    [] a.t = "prob" -> ln.cm /\ Len(ln.w) = 3 /\ ln.w[1].b = a.b /\ ln.w[2].k = "nat" /\ ln.w[2].n = a.v
                       /\ (a.x < 0 \/ ln.w[3].pn = a.x)
    [] OTHER -> FALSE

\* ------------------------------------------------------------------ the comparison (validate_jaqal_circuit)
\* ex: what the reader collected; rd, nq, pr: the fresh execution.  "agree" / "differ"; "open" when the collected data
\* has another shape than the execution (fewer outcomes or subcircuits: the implementation zips, or fails with KeyError)
\* or a probability is not exactly representable.
Compare(ex, rd, nq, pr) ==
  LET measShape == ~ex.hasMeas \/ TRUE
      measSame == ~ex.hasMeas \/
                  (/\ Len(ex.meas) = Len(rd)
                   /\ \A j \in DOMAIN rd : ex.meas[j].b = BitsOf(rd[j].value, nq) /\ ex.meas[j].v = rd[j].value /\ ex.meas[j].sub = rd[j].sub)
      probShape == ~ex.hasProb \/
                   (/\ Len(ex.prob) = Len(pr)
                    /\ \A k \in DOMAIN pr : Len(ex.prob[k]) = 2 ^ nq /\ \A v \in 1..(2 ^ nq) : pr[k][v] >= 0 /\ ex.prob[k][v].pn >= 0)
      probKeys == ~ex.hasProb \/
                  \A k \in DOMAIN pr : \A v \in 1..(2 ^ nq) : ex.prob[k][v].b = BitsOf(v - 1, nq) /\ ex.prob[k][v].v = v - 1
      Dist(a, b) == IF a >= b THEN a - b ELSE b - a
      probSame == ~ex.hasProb \/ \A k \in DOMAIN pr : \A v \in 1..(2 ^ nq) : ex.prob[k][v].pn = pr[k][v]
      \* the implementation compares with numpy.isclose (rtol 1e-5, atol 1e-8): a difference above 1e-4 is a difference
      probFar == ex.hasProb /\ \E k \in DOMAIN pr : \E v \in 1..(2 ^ nq) : Dist(ex.prob[k][v].pn, pr[k][v]) > 107374
  IN IF ~measSame THEN "differ"                 \* the readouts are compared first, as whole lists
     ELSE IF ~probShape THEN "open"
     ELSE IF ~probKeys THEN "differ"
     ELSE IF probSame THEN "agree" ELSE IF probFar THEN "differ" ELSE "open"
\* the list validate_jaqal_circuit returns when everything agrees
Validated(ex) == (IF ex.hasMeas THEN <<"measurements agree">> ELSE <<>>) \o (IF ex.hasProb THEN <<"probabilities agree">> ELSE <<>>)

\* ------------------------------------------------------------------ theorems (checked by ValidateEnum on every reachable state)
\* what the writer writes, the reader reads back as exactly the execution it was written from
WordOfNat(n) == [s |-> "n", k |-> "nat", n |-> n, b |-> <<>>, pn |-> -1]
WordOfBits(b) == [s |-> ToString(b), k |-> "other", n |-> -1, b |-> b, pn |-> -1]
WordOfP(x) == [s |-> "p", k |-> "other", n |-> -1, b |-> <<>>, pn |-> x]
Spell(a) ==
  CASE a.t = "blank" -> [cm |-> FALSE, s |-> "", w |-> <<>>]
    [] a.t = "hdr" -> [cm |-> TRUE, s |-> a.s, w |-> <<>>]
    [] a.t = "meas" -> [cm |-> TRUE, s |-> "m", w |-> <<WordOfBits(a.b), WordOfNat(a.v), WordOfNat(a.x)>>]
    [] a.t = "sub" -> [cm |-> TRUE, s |-> "s", w |-> <<[s |-> "SUBCIRCUIT", k |-> "alpha", n |-> -1, b |-> <<>>, pn |-> -1], WordOfNat(a.v)>>]
    [] OTHER -> [cm |-> TRUE, s |-> "p", w |-> <<WordOfBits(a.b), WordOfNat(a.v), WordOfP(a.x)>>]
SpellAll(as) == [j \in DOMAIN as |-> Spell(as[j])]
RoundTrip(rd, nq, pr) ==
  LET lines == SpellAll(GenLines(rd, nq, pr))
      ex == VRead(lines)
  IN /\ ex.verdict = "ok" /\ ex.hasMeas /\ ex.hasProb
     /\ \A j \in DOMAIN lines : LineIs(GenLines(rd, nq, pr)[j], lines[j])
     /\ Compare(ex, rd, nq, pr) = "agree"
=============================================================================
