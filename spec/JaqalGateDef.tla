------------------------------ MODULE JaqalGateDef ------------------------------
(***************************************************************************)
(* Gate definitions and calls (C18, DESIGN 3.5 / Appendix B.7).             *)
(* Kinds of parameters and classes of argument values; Fits; CallOK; and    *)
(* the enumeration machine GateCallEnum: a signature is built parameter by  *)
(* parameter, then an argument list argument by argument.                   *)
(***************************************************************************)
EXTENDS Naturals, Sequences, FiniteSets, TLC, Json

Kinds == {"qubit", "register", "int", "float", "none"}
ValueClasses == {"qubit", "register", "int", "ifloat", "float", "let_int", "let_ifloat", "let_float",
                 "param_none", "param_qubit", "param_register", "param_int", "param_float", "other"}

Fits(kind, v) ==
  CASE kind = "none" -> TRUE
    [] kind = "qubit" -> v \in {"qubit", "param_none", "param_qubit"}
    [] kind = "register" -> v \in {"register", "param_none", "param_register"}
    [] kind = "int" -> v \in {"int", "ifloat", "let_int", "let_ifloat", "param_none", "param_int"}
    [] kind = "float" -> v \in {"int", "ifloat", "float", "let_int", "let_ifloat", "let_float",
                                "param_none", "param_int", "param_float"}
    [] OTHER -> FALSE

\* positional or all-keyword call with exactly the parameter names
CallOK(sig, args) == Len(sig) = Len(args) /\ \A j \in DOMAIN sig : Fits(sig[j], args[j])

=============================================================================
