------------------------------- MODULE JaqalGates -------------------------------
(* The exact native gate family used by the executable checks (DESIGN 3.4): signatures here,
   matrices in JaqalExec.  harness/gates.py builds the same table as GateDefinition objects and the
   correspondence is itself validated (Conform_Gates).                                          *)
EXTENDS Sequences
NG(v, kinds, cls, u) == [v |-> v, kinds |-> kinds, cls |-> cls, unitary |-> u]
ActiveGates ==
  << NG("X", <<"qubit">>, "native", TRUE), NG("H", <<"qubit">>, "native", TRUE),
     NG("S", <<"qubit">>, "native", TRUE), NG("N", <<"qubit">>, "native", FALSE),
     NG("R", <<"qubit", "int">>, "native", TRUE), NG("Pf", <<"qubit", "float">>, "native", TRUE),
     NG("CX", <<"qubit", "qubit">>, "native", TRUE), NG("SW", <<"qubit", "qubit">>, "native", TRUE),
     NG("CR", <<"qubit", "qubit", "int">>, "native", TRUE),
     NG("CCX", <<"qubit", "qubit", "qubit">>, "native", TRUE),
     NG("F", <<"qubit", "qubit", "qubit">>, "native", TRUE) >>
BusyGates == << NG("prepare_all", <<>>, "busy", FALSE), NG("measure_all", <<>>, "busy", FALSE) >>
IdleOf(g) == NG("I_" \o g.v, g.kinds, "idle", FALSE)
IdleGates == [j \in DOMAIN ActiveGates |-> IdleOf(ActiveGates[j])]
ExactGates == BusyGates \o ActiveGates \o IdleGates
=============================================================================
