-------------------------------- MODULE JaqalLib --------------------------------
(***************************************************************************)
(* The library-call history machine (DESIGN 3.5).                           *)
(*  objs : handle -> abstract circuit.  Handle 0 is the circuit the user    *)
(*         parsed; every transformation call adds a handle for its result;  *)
(*         an abstract circuit is the set of transformations applied to the *)
(*         parsed program (the requirement: the result of a history depends *)
(*         only on that set - passes commute and are idempotent, C10).      *)
(*  log  : the calls made so far, [op, on (handle), res (handle or -1)]     *)
(* Frame condition (C11): no call changes objs[h] for an existing handle.   *)
(* Two regimes, selected by Chain:                                          *)
(*   Chain = TRUE  every call is applied to the most recent result (C10)    *)
(*   Chain = FALSE every call is applied to handle 0, the shared object (C11)*)
(***************************************************************************)
EXTENDS Naturals, Integers, Sequences, FiniteSets, TLC, Json
CONSTANTS Transforms,   \* ops that return a new circuit
          Analyses,     \* ops that only inspect
          MaxLen, Chain
VARIABLES objs, log

Ops == Transforms \cup Analyses
Init == objs = <<{}>> /\ log = <<>>          \* objs[h+1] is handle h
Last == Len(objs) - 1
Target == IF Chain THEN Last ELSE 0

Call(op) ==
  /\ Len(log) < MaxLen
  /\ IF op \in Transforms
     THEN /\ objs' = Append(objs, objs[Target + 1] \cup {op})
          /\ log' = Append(log, [op |-> op, on |-> Target, res |-> Last + 1])
     ELSE /\ objs' = objs
          /\ log' = Append(log, [op |-> op, on |-> Target, res |-> -1])
Next == \E op \in Ops : Call(op)
Spec == Init /\ [][Next]_<<objs, log>>

\* C11, as an action property of the design: existing handles never change
InputUnchanged == [][\A h \in DOMAIN objs : objs'[h] = objs[h]]_<<objs, log>>
\* C10, on the abstract level: the abstract result of a chain is the set of passes in it
ResultIsSetOfOps == Chain => objs[Len(objs)] = { log[j].op : j \in { x \in DOMAIN log : log[x].res >= 0 } }
\* always TRUE: prints every history (all prefixes) for the harness to replay
Emit == PrintT(<<"HIST", ToJson([j \in DOMAIN log |-> log[j].op])>>)
=============================================================================
