------------------------------- MODULE AstConfigs -------------------------------
(* Configurations of the builder machine, one family per property.  A configuration is chosen in the
   .cfg text by `Headers <- H_xxx` etc. (harness/<prop>.py).                                      *)
EXTENDS AstEnum

NoGates == {}
I0 == NumI(0)  I1 == NumI(1)  I2 == NumI(2)  I3 == NumI(3)
F15 == NumF("1.5", "1.5", 0, FALSE)
F20 == NumF("2.0", "2", 2, TRUE)
F30 == NumF("3.0", "3", 3, TRUE)
FTINY == NumF("0.000001", "1e-06", 0, FALSE)

\* ---------------------------------------------------------------- C04: macros
H_M == { Hdr(<<DLet("a", I1), DLet("b", I2)>>, <<DReg("q", I3)>>, <<>>, <<>>),
         Hdr(<<DLet("a", I1), DLet("b", I2)>>, <<DReg("q", I3), DSlice("r", "q", I1, I3, None)>>, <<>>, ExactGates) }
\* (A) rich macro bodies, small main body
MD(v, params, kinds, gates, mopen, max) == [v |-> v, params |-> params, kinds |-> kinds, gates |-> gates, mopen |-> mopen, max |-> max]
M_MA == << MD("m1", <<"x">>, {"seq", "par"}, { G("X", <<Par("x")>>), G("R", <<Par("x"), Let("a")>>) }, {}, 2),
           MD("m2", <<"x", "y">>, {"seq"},
              { G("m1", <<Par("x")>>), G("R", <<Par("x"), Par("y")>>), G("X", <<Qb("q", Par("y"))>>),
                G("m1", <<Qb("q", Par("y"))>>) }, { OLoop(Par("y"), FALSE), OPar }, 2) >>
T_MA == { G("m1", <<QI("q", 1)>>), G("m2", <<QI("q", 2), I1>>), G("m2", <<Qb("q", Let("a")), Let("b")>>) }
O_MA == { OSeq, OPar, OLoop(I2, FALSE), OSub(I1) }
\* (B) fixed macros, rich main body
M_MB == << MD("m1", <<"x">>, {"seq", "par"}, { G("X", <<Par("x")>>) }, {}, 1),
           MD("m2", <<"x", "y">>, {"seq"}, { G("m1", <<Qb("q", Par("y"))>>) }, { OSub(Par("y")) }, 1),
           \* a register parameter indexed by another parameter
           MD("m3", <<"r", "i">>, {"seq"}, { G("X", <<QbP("r", Par("i"))>>), G("X", <<QbP("r", I0)>>) }, {}, 1) >>
T_MB == { G("X", <<QI("q", 0)>>), G("m1", <<QI("q", 1)>>), G("m2", <<QI("q", 2), Let("a")>>), G("m3", <<RegA("q"), I2>>),
          G("m3", <<RegA("q"), I0>>), G("m2", <<QI("q", 1), I0>>) }         \* arguments whose value is zero
O_MB == { OSeq, OPar, OLoop(Let("b"), FALSE), OLoop(I2, TRUE), OSub(I1), OSub(I2) }

\* (C) three levels of macro calls; the outer macros go on using their OWN parameters after the inner call returns,
\* and every level binds the same parameter names to other values
M_N3 == << MD("m1", <<"x">>, {"seq"}, { G("X", <<Par("x")>>) }, {}, 1),
           MD("m2", <<"x", "y">>, {"seq"}, { G("m1", <<Par("y")>>), G("X", <<Par("x")>>) }, {}, 2),
           MD("m3", <<"x", "y", "z">>, {"seq"}, { G("m2", <<Par("y"), Par("z")>>), G("X", <<Par("x")>>), G("R", <<Par("y"), Let("a")>>) }, {}, 2) >>
T_N3 == { G("m3", <<QI("q", 0), QI("q", 1), QI("q", 2)>>), G("m2", <<QI("q", 2), QI("q", 0)>>), G("X", <<QI("q", 1)>>) }
O_N3 == { OSeq }

\* ---------------------------------------------------------------- C05: constants in every position
H_L == { Hdr(<<DLet("a", I1), DLet("n", I3), DLet("f", F20)>>,
             <<DReg("q", Let("n")), DSlice("r", "q", Let("a"), Let("n"), None), DIndex("s", "q", Let("a"))>>, <<>>, <<>>),
         Hdr(<<DLet("a", I1), DLet("n", I3), DLet("f", F20)>>,
             <<DReg("q", I3), DSlice("r", "q", None, None, Let("a")), DIndex("s", "r", I0)>>, <<>>, ExactGates),
         \* an alias of an alias: the constant sits in the INNER link only, the outer links are all literal
         Hdr(<<DLet("a", I1), DLet("n", I3), DLet("f", F20)>>,
             <<DReg("q", NumI(4)), DSlice("w", "q", Let("a"), NumI(4), None), DSlice("r", "w", I0, I2, None), DIndex("s", "r", I1)>>, <<>>, <<>>) }
M_L == << MD("m1", <<"x", "a">>, {"seq"},
             { G("R", <<Par("x"), Par("a")>>), G("X", <<Qb("q", Par("a"))>>), G("R", <<Par("x"), Let("n")>>) },
             { OLoop(Par("a"), FALSE) }, 2) >>
T_L == { G("R", <<QI("q", 0), Let("a")>>), G("X", <<Qb("q", Let("a"))>>), G("X", <<QI("r", 0)>>), G("X", <<QAl("s")>>),
         G("m1", <<QI("q", 0), I2>>), G("R", <<QI("q", 1), Let("f")>>) }
O_L == { OSeq, OPar, OLoop(Let("a"), FALSE), OSub(Let("a")) }

\* ---------------------------------------------------------------- C09: subcircuit blocks everywhere legal
\* (m0 is a plain macro defined BEFORE m1; m1 holds the subcircuit blocks and may call m0: definitions must keep their order)
M_S == << MD("m0", <<"x">>, {"seq"}, { G("X", <<Par("x")>>) }, {}, 1),
          MD("m1", <<"x">>, {"seq"}, { G("X", <<Par("x")>>), G("m0", <<Par("x")>>) }, { OSub(I2), OLoop(I2, FALSE) }, 3) >>
T_S == { G("X", <<QI("q", 0)>>), G("m1", <<QI("q", 1)>>), G("prepare_all", <<>>), G("measure_all", <<>>) }
O_S == { OSeq, OPar, OLoop(I2, FALSE), OSub(I1), OSub(Let("b")) }

\* ---------------------------------------------------------------- C06: aliases used in statements (fill_in_map)
H_A == { Hdr(<<DLet("a", I1)>>, <<DReg("q", I3), DSlice("r", "q", I1, I3, None), DIndex("s", "r", I1),
                                   DWhole("w", "r"), DSlice("t", "q", I2, I0, NumI(-1))>>, <<>>, <<>>),
         Hdr(<<DLet("a", I1)>>, <<DReg("q", I3), DSlice("r", "q", None, None, I2), DIndex("s", "q", Let("a")),
                                   DWhole("w", "q"), DSlice("t", "r", Let("a"), I2, None)>>, <<>>, ExactGates),
         \* the let sits in the innermost link only (u = q[a:4]); r, w, s, t are literal views of it
         Hdr(<<DLet("a", I1)>>, <<DReg("q", NumI(4)), DSlice("u", "q", Let("a"), NumI(4), None), DSlice("r", "u", I0, I2, None),
                                   DIndex("s", "r", I1), DWhole("w", "r"), DSlice("t", "u", I1, I0, NumI(-1))>>, <<>>, ExactGates) }
\* (m2: its parameter has the NAME of the constant that bounds the aliases; it is called with other values than the constant's)
M_A == << MD("m1", <<"x", "y">>, {"seq"}, { G("X", <<Par("x")>>), G("X", <<QI("r", 0)>>), G("X", <<Qb("w", Par("y"))>>), G("X", <<QAl("s")>>) }, {}, 2),
          MD("m2", <<"a">>, {"seq"}, { G("X", <<QAl("s")>>), G("X", <<QI("t", 0)>>), G("R", <<QI("r", 0), Par("a")>>) }, {}, 2),
          \* m3 calls m1, whose formals have the SAME names, with other values, and goes on using its own y afterwards
          MD("m3", <<"x", "y">>, {"seq"}, { G("m1", <<QI("r", 0), I1>>), G("X", <<Qb("w", Par("y"))>>), G("X", <<Par("x")>>) }, {}, 2) >>
T_A == { G("X", <<QI("r", 1)>>), G("X", <<QAl("s")>>), G("CX", <<QI("w", 0), QI("t", 0)>>), G("m1", <<QI("r", 0), I1>>),
         G("m1", <<QAl("s"), Let("a")>>), G("X", <<Qb("r", Let("a"))>>), G("m2", <<I2>>), G("m2", <<I0>>), G("m3", <<QAl("s"), I0>>) }
O_A == { OSeq, OPar, OLoop(I2, FALSE), OSub(I1) }

\* ---------------------------------------------------------------- C10 / C11: all four passes have work to do
H_X == { Hdr(<<DLet("a", I1), DLet("n", I2)>>, <<DReg("q", I3), DSlice("r", "q", Let("a"), None, None)>>, <<>>, <<>>),
         Hdr(<<DLet("a", I1), DLet("n", I2)>>, <<DReg("q", I3), DSlice("r", "q", I0, Let("n"), None)>>, <<>>, ExactGates),
         \* a native table WITHOUT prepare_all / measure_all (expand_subcircuits has to make them up)
         Hdr(<<DLet("a", I1), DLet("n", I2)>>, <<DReg("q", I3), DSlice("r", "q", I0, Let("n"), None)>>, <<>>, ActiveGates),
         \* r is a literal view of an alias bounded by a constant
         Hdr(<<DLet("a", I1), DLet("n", I2)>>, <<DReg("q", I3), DSlice("w", "q", Let("a"), None, None), DSlice("r", "w", I0, I1, None)>>, <<>>, ExactGates) }
M_X == << MD("m1", <<"x">>, {"seq"}, { G("X", <<Par("x")>>), G("X", <<QI("r", 0)>>) }, { OSub(I1), OLoop(Let("n"), FALSE) }, 1),
          MD("m2", <<"x", "y">>, {"seq", "par"}, { G("m1", <<Par("x")>>), G("R", <<Par("x"), Par("y")>>) }, { OSub(Par("y")) }, 1) >>
T_X == { G("X", <<QI("r", 0)>>), G("m1", <<Qb("q", Let("a"))>>), G("m2", <<QI("q", 2), Let("n")>>), G("m2", <<QI("q", 1), I0>>),
         G("prepare_all", <<>>), G("measure_all", <<>>) }
\* macros whose body is a single loop / parallel block / call, called directly inside blocks
M_XP == << MD("m1", <<"x">>, {"seq", "par"}, { G("X", <<Par("x")>>) }, { OLoop(Let("n"), FALSE), OPar }, 2),
           MD("m2", <<"x">>, {"seq"}, { G("m1", <<Par("x")>>) }, {}, 1) >>
T_XP == { G("m1", <<QI("q", 0)>>), G("m2", <<QI("q", 1)>>), G("X", <<QI("q", 2)>>) }
O_XP == { OSeq, OPar }
\* a macro whose register parameter is NAMED like the register q, with the same statement text `X q[0]` inside and outside
M_XC == << MD("kick", <<"q">>, {"seq"}, { G("X", <<QbP("q", I0)>>) }, { OSub(I1) }, 2) >>
T_XC == { G("X", <<QI("q", 0)>>), G("X", <<Qb("q", Let("a"))>>), G("kick", <<RegA("r")>>), G("kick", <<RegA("q")>>) }
O_XC == { OSeq, OSub(I1) }
\* a called macro whose body nests blocks of the SAME type directly (builder route only), with parameter-free parts
M_XF == << MD("m1", <<"x">>, {"seq", "par"}, { G("X", <<QI("q", 0)>>), G("X", <<Par("x")>>) }, { OSeqAny, OParAny }, 3) >>
T_XF == { G("m1", <<QI("q", 1)>>), G("X", <<QI("q", 2)>>) }
O_XF == { OSeq }
O_X == { OSeq, OPar, OLoop(Let("n"), FALSE), OLoop(Let("a"), FALSE), OSub(I1), OSub(Let("n")) }

\* ---------------------------------------------------------------- C07: colliding names (lexical scoping)
\* let a, register q, alias r  versus macro parameters a, q, r; the same statement text in two scopes
\* (s: a single-qubit alias whose index is the constant; used inside the macro whose parameter is named like its source q)
H_B == { Hdr(<<DLet("a", I1)>>, <<DReg("q", I3), DSlice("r", "q", I1, I3, None), DIndex("s", "q", Let("a"))>>, <<>>, <<>>) }
M_B == << MD("f", <<"a">>, {"seq"}, { G("g", <<Par("a")>>), G("g", <<Qb("q", Par("a"))>>), G("g", <<QI("r", 0)>>),
                                       G("g", <<QI("q", 0)>>) }, {}, 2),
          MD("h", <<"q">>, {"seq"}, { G("g", <<Par("q")>>), G("g", <<QbP("q", I0)>>), G("g", <<QbP("q", Let("a"))>>),
                                       G("g", <<Let("a")>>), G("g", <<QAl("s")>>) }, {}, 2),
          MD("k", <<"r", "a">>, {"seq"}, { G("g", <<QbP("r", I0)>>), G("g", <<QbP("r", Par("a"))>>), G("g", <<Par("a")>>) }, {}, 1),
          \* n calls f, whose parameter has the SAME name a, with another value, and goes on using its own a
          MD("n", <<"a">>, {"seq"}, { G("f", <<I2>>), G("g", <<Par("a")>>) }, {}, 2) >>
M_BQ == << [M_B[1] EXCEPT !.max = 1], [M_B[2] EXCEPT !.max = 1], M_B[3], M_B[4] >>
T_B == { G("g", <<Let("a")>>), G("g", <<Qb("q", Let("a"))>>), G("g", <<QI("r", 0)>>), G("g", <<QI("q", 0)>>),
         G("f", <<I2>>), G("h", <<RegA("r")>>), G("k", <<RegA("q"), I2>>), G("n", <<I3>>) }
O_B == { OLoop(Let("a"), FALSE) }

\* ---------------------------------------------------------------- execution: structure (C12, C08)
H_E == { Hdr(<<DLet("z", I0), DLet("t", I2)>>, <<DReg("q", I2)>>, <<>>, ExactGates) }
M_E0 == <<>>
M_E1 == << MD("m", <<"x">>, {"seq"}, { G("X", <<Par("x")>>) }, { OSub(I1) }, 2) >>
\* two macros: the first has a parameter NAMED like the constant t, the second (defined after it) uses the constant t as
\* the count of a loop around a subcircuit - executed under overrides of t (C08: overridden lets behave like literals)
M_E2 == << MD("p", <<"t">>, {"seq"}, { G("X", <<QI("q", 0)>>) }, {}, 1),
           MD("m", <<"x">>, {"seq"}, { G("X", <<Par("x")>>) }, { OSub(I1), OLoop(Let("t"), FALSE) }, 3) >>
O_E0 == { OSeq, OLoop(Let("t"), FALSE), OSub(I1) }
H_E1 == { Hdr(<<DLet("z", I0), DLet("t", I1)>>, <<DReg("q", I2)>>, <<>>, ExactGates) }      \* the constant t is 1 in the file
T_E == { G("prepare_all", <<>>), G("measure_all", <<>>), G("X", <<QI("q", 0)>>) }
T_E1 == T_E \cup { G("m", <<QI("q", 1)>>) }
O_E == { OSeq, OPar, OLoop(I0, FALSE), OLoop(I2, FALSE), OLoop(Let("t"), FALSE), OLoop(I1, FALSE), OSub(I1) }

\* loops and blocks around section boundaries (deep, two-gate alphabet)
T_PM == { G("prepare_all", <<>>), G("measure_all", <<>>) }
O_PM == { OSeq, OPar, OLoop(I2, FALSE), OLoop(I2, TRUE), OLoop(I0, FALSE) }
\* loops only (zero-count and repeating) around prepare / measure events, exhaustive to 6 nodes
O_L02 == { OLoop(I0, FALSE), OLoop(I2, FALSE) }
\* nothing but repeating loops and subcircuit blocks, to 7 nodes and 3 levels: sibling loops that each begin with a nested loop
O_LS == { OLoop(I2, FALSE), OSub(I1) }

\* ---------------------------------------------------------------- execution: gates (C03)
H_G == { Hdr(<<DLet("k", I1), DLet("j", I2)>>, <<DReg("q", I3), DSlice("r", "q", I2, I0, NumI(-1)), DIndex("s", "q", I1)>>, <<>>, ExactGates) }
M_G == << MD("m", <<"x", "y", "p">>, {"seq"}, { G("CX", <<Par("x"), Par("y")>>), G("R", <<Par("y"), Par("p")>>) }, {}, 2) >>
T_G == { G("X", <<QI("q", 0)>>), G("H", <<QI("q", 1)>>), G("H", <<QI("q", 2)>>), G("S", <<QI("q", 1)>>),
         G("CX", <<QI("q", 1), QI("q", 0)>>), G("CX", <<QI("q", 0), QI("q", 2)>>), G("SW", <<QI("q", 2), QI("q", 0)>>),
         G("CCX", <<QI("q", 2), QI("q", 0), QI("q", 1)>>), G("F", <<QI("q", 1), QI("q", 2), QI("q", 0)>>),
         G("R", <<QI("q", 0), Let("k")>>), G("CR", <<QI("q", 2), QI("q", 1), I3>>), G("Pf", <<QI("q", 2), F20>>),
         G("N", <<QI("q", 0)>>), G("I_X", <<QI("q", 1)>>),
         G("H", <<QI("r", 0)>>), G("CX", <<QAl("s"), QI("r", 0)>>), G("m", <<QI("q", 2), QI("q", 0), Let("j")>>) }
O_G == { OSub(I1), OLoop(Let("j"), FALSE), OPar }
\* deep gate sequences inside one subcircuit, asymmetric and parametrised gates on ordered tuples
T_G2 == { G("H", <<QI("q", 0)>>), G("H", <<QI("q", 2)>>), G("S", <<QI("q", 2)>>), G("CX", <<QI("q", 0), QI("q", 1)>>),
          G("CX", <<QI("q", 2), QI("q", 0)>>), G("F", <<QI("q", 2), QI("q", 0), QI("q", 1)>>),
          G("CCX", <<QI("q", 1), QI("q", 2), QI("q", 0)>>), G("CR", <<QI("q", 0), QI("q", 2), Let("k")>>),
          G("R", <<QI("r", 0), I3>>),
          \* a rotation by a tiny REAL angle (outside the exact family: the gate must be applied, its state is not recomputed)
          G("Pf", <<QI("q", 1), FTINY>>) }
O_G2 == { OSub(I1) }
\* constants in every position that decides WHICH qubit or matrix a gate gets, executed under override dictionaries:
\* w = q[k:4] is bounded by a constant, r and s are literal views of w, j is an index and a loop count, k an angle
H_GO == { Hdr(<<DLet("k", I1), DLet("j", I2)>>, <<DReg("q", NumI(4)), DSlice("w", "q", Let("k"), NumI(4), None),
                                                   DSlice("r", "w", I0, I2, None), DIndex("s", "r", I1)>>, <<>>, ExactGates) }
T_GO == { G("X", <<QI("r", 0)>>), G("H", <<QAl("s")>>), G("CX", <<QI("r", 1), QI("q", 0)>>), G("R", <<QI("q", 0), Let("k")>>),
          G("X", <<Qb("q", Let("j"))>>), G("CR", <<QI("w", 0), QI("w", 1), Let("j")>>), G("H", <<QI("q", 0)>>) }
O_GO == { OSub(I1), OLoop(Let("j"), FALSE) }
\* other register sizes: one qubit; four qubits (gates on the highest qubit and across the whole register; a program
\* has a single fundamental register, JaqalParse!TwoRegisters)
H_G1 == { Hdr(<<>>, <<DReg("q", I1)>>, <<>>, ExactGates) }
T_G1 == { G("X", <<QI("q", 0)>>), G("H", <<QI("q", 0)>>), G("S", <<QI("q", 0)>>), G("R", <<QI("q", 0), I3>>), G("I_X", <<QI("q", 0)>>) }
\* r = q[1], q[3];  u = r[1:2] = q[3]: an alias of a STRIDED alias with a non-zero start (the links compose as
\* start_r + start_u * step_r)
H_G4 == { Hdr(<<>>, <<DReg("q", NumI(4)), DSlice("r", "q", I1, NumI(4), I2), DSlice("u", "r", I1, I2, None)>>, <<>>, ExactGates) }
T_G4 == { G("X", <<QI("u", 0)>>), G("CX", <<QI("u", 0), QI("q", 0)>>), G("X", <<QI("q", 3)>>), G("H", <<QI("q", 3)>>), G("H", <<QI("q", 0)>>), G("CX", <<QI("q", 3), QI("q", 0)>>),
          G("CX", <<QI("q", 2), QI("q", 3)>>), G("SW", <<QI("q", 1), QI("q", 3)>>), G("CCX", <<QI("q", 0), QI("q", 3), QI("q", 2)>>),
          G("CR", <<QI("r", 1), QI("r", 0), I3>>), G("S", <<QI("q", 2)>>) }

\* ---------------------------------------------------------------- execution: parallel blocks (C13)
H_P == { Hdr(<<>>, <<DReg("q", I3), DSlice("r", "q", I1, I3, None)>>, <<>>, ExactGates),
         \* a register sized by a let constant, an alias bounded by it
         Hdr(<<DLet("n", I3)>>, <<DReg("q", Let("n")), DSlice("r", "q", I1, Let("n"), None)>>, <<>>, ExactGates),
         \* an alias of a STRIDED alias with a non-zero start: r = w[1:3] = (q[2], q[4])
         Hdr(<<>>, <<DReg("q", NumI(5)), DSlice("w", "q", I0, NumI(5), I2), DSlice("r", "w", I1, I3, None)>>, <<>>, ExactGates) }
\* n calls m; n's second formal has the NAME of m's formal and is bound to another qubit than the one n passes on
M_P == << MD("m", <<"x">>, {"seq"}, { G("X", <<Par("x")>>), G("CX", <<Par("x"), QI("q", 0)>>) }, {}, 1),
          MD("nn", <<"y", "x">>, {"seq"}, { G("m", <<Par("y")>>), G("m", <<Par("x")>>) }, {}, 1),
          \* three names in a chain: o passes ITS y on as m2's x, and its z as m2's y
          MD("m2", <<"x", "y">>, {"seq"}, { G("X", <<Par("x")>>) }, {}, 1),
          MD("o", <<"x", "y", "z">>, {"seq"}, { G("m2", <<Par("y"), Par("z")>>) }, {}, 1) >>
T_P == { G("X", <<QI("q", 0)>>), G("X", <<QI("q", 1)>>), G("CX", <<QI("q", 1), QI("q", 2)>>), G("X", <<QI("r", 0)>>),
         G("m", <<QI("q", 2)>>), G("I_X", <<QI("q", 0)>>), G("H", <<QI("r", 1)>>), G("nn", <<QI("q", 1), QI("q", 2)>>),
         G("nn", <<QI("q", 2), QI("q", 1)>>),      \* the same macro again with other actual arguments
         G("o", <<QI("q", 0), QI("q", 1), QI("q", 2)>>) }
O_P == { OSub(I1), OPar, OSeq }

\* ---------------------------------------------------------------- C01 / C17 / C20: everything the text can say
FE6 == NumF("0.000001", "1e-06", 0, FALSE)
FBIG == NumF("10000000000000000.0", "10000000000000000", 0, FALSE)
FNEG == NumF("-2.5", "-2.5", 0, FALSE)
INEG == NumI(-3)
H_R == { Hdr(<<DLet("a", I1), DLet("n", NumI(4)), DLet("y", FE6), DLet("w", FNEG)>>,
             <<DReg("q", Let("n")), DSlice("r", "q", Let("a"), Let("n"), I2), DIndex("s", "q", Let("a")), DWhole("v", "r")>>,
             <<>>, <<>>),
         Hdr(<<DLet("a", I1), DLet("n", NumI(4)), DLet("y", FBIG), DLet("w", INEG)>>,
             <<DReg("q", NumI(4)), DSlice("r", "q", None, I3, None), DIndex("s", "r", I0), DSlice("v", "q", I1, None, I2)>>,
             <<"mypulses.sub">>, <<>>) }
\* (the second parameter is named like the constant a, which top-level statements use: the generator moves macro
\*  definitions in front of the body, so a text with the macro AFTER such a statement tests that the definition does
\*  not disturb the outer binding)
M_R == << MD("m", <<"x", "a">>, {"seq", "par"}, { G("g", <<Par("x"), Par("a")>>), G("h", <<Qb("q", Par("a"))>>) }, { OSub(Let("n")) }, 1) >>
T_R == { G("g", <<QI("q", 0), F15>>), G("g", <<QAl("s"), Let("y")>>), G("h", <<QI("r", 1)>>), G("g", <<QI("v", 0), FE6>>),
         G("m", <<QI("q", 2), I2>>), G("k", <<FNEG, INEG, FBIG>>),
         \* an integral float next to the equal integer (the loop count 3 of O_R): 3.0 and 3 must stay different spellings
         G("g", <<QI("q", 1), F30>>) }
O_R == { OSeq, OPar, OLoop(Let("a"), FALSE), OLoop(I3, TRUE), OSub(I1), OSub(NumI(5)), OSub(Let("n")), OSub(I0) }

\* ---------------------------------------------------------------- C16: executable texts with loop counts at the edge
\* (gate definitions come from the pulse fixture harness/pulses/vpulses.py through a usepulses statement)
FINF == NumF("1.0e999", "inf", 0, FALSE)
H_N == { Hdr(<<DLet("z", NumI(-2)), DLet("y", F15), DLet("w", FINF)>>, <<DReg("q", I2)>>, <<".vpulses">>, <<>>) }
\* (R takes an INT: an infinite literal or constant must be refused with JaqalError, not OverflowError)
T_N == { G("prepare_all", <<>>), G("measure_all", <<>>), G("X", <<QI("q", 0)>>), G("R", <<QI("q", 0), FINF>>), G("R", <<QI("q", 1), Let("w")>>) }
O_N == { OLoop(NumI(-1), FALSE), OLoop(Let("z"), FALSE), OLoop(I0, FALSE), OLoop(I2, FALSE), OSeq,
         OLoop(Let("y"), FALSE), OLoop(Let("w"), FALSE) }     \* non-integral and infinite constants as loop counts

\* ---------------------------------------------------------------- C19: alternating seq / par nestings
H_T == { Hdr(<<DLet("a", I1)>>, <<DReg("q", NumI(5))>>, <<"mypulses.sub">>, <<>>) }
T_T == { G("g", <<QI("q", 0)>>), G("g", <<QI("q", 1)>>), G("g", <<QI("q", 2)>>), G("h", <<QI("q", 3), Let("a")>>) }
O_T == { OSeq, OPar, OLoop(I2, FALSE), OSub(I1) }
O_TD == { OSeq, OPar }          \* deep alternating nestings (TLC simulation)
\* loops below parallel blocks at every depth (all must be rejected), few gates
T_TL == { G("g", <<QI("q", 0)>>), G("g", <<QI("q", 1)>>) }
O_TL == { OSeq, OPar, OLoop(I2, FALSE) }
\* the loop may be opened anywhere (also as a direct branch of a parallel block): builder route only
O_TLA == { OSeq, OPar, OLoopAny(I2, FALSE) }

\* ---------------------------------------------------------------- C17: programs expressible in all three front ends
\* (second header: two constants with EQUAL values - left anonymous, Q-syntax must still keep them apart)
H_F == { Hdr(<<DLet("a", I2), DLet("__r0", I3), DLet("__c0", I1)>>, <<DReg("q", Let("__r0"))>>, <<>>, <<>>),
         Hdr(<<DLet("a", I2), DLet("__r0", I3), DLet("__c0", I2)>>, <<DReg("q", Let("__r0"))>>, <<>>, <<>>) }
T_F == { G("g", <<QI("q", 0), F15>>), G("k", <<Qb("q", Let("a"))>>), G("h", <<Let("a"), Let("__c0")>>), G("prepare_all", <<>>) }
O_F == { OSeq, OPar, OLoop(Let("a"), FALSE), OLoop(I2, FALSE), OLoop(I0, FALSE), OSub(I1), OSub(I0), OSub(Let("__r0")) }

\* ---------------------------------------------------------------- C14: references that cannot be honoured
VBase == <<DLet("a", I1), DLet("k", I3)>>
VReg == DReg("q", I3)
H_V == { Hdr(VBase, <<VReg, DSlice("r", "q", I1, I3, None), DIndex("s", "q", I2)>>, <<>>, ExactGates),
         Hdr(VBase, <<VReg, DSlice("r", "q", I1, NumI(4), None)>>, <<>>, ExactGates),         \* stop > size
         Hdr(VBase, <<VReg, DSlice("r", "q", NumI(-1), I2, None)>>, <<>>, ExactGates),        \* negative start
         Hdr(VBase, <<VReg, DSlice("r", "q", I0, I2, I0)>>, <<>>, ExactGates),                \* zero step
         Hdr(VBase, <<VReg, DSlice("r", "q", I0, I2, Let("a"))>>, <<>>, ExactGates),         \* a step that an override makes zero
         Hdr(VBase, <<VReg, DWhole("r", "a")>>, <<>>, ExactGates),                            \* alias of a let
         Hdr(VBase, <<VReg, DIndex("s", "q", I3)>>, <<>>, ExactGates),                        \* index = size
         Hdr(VBase, <<VReg, DIndex("s", "q", Let("k"))>>, <<>>, ExactGates),                  \* let index = size
         Hdr(VBase, <<VReg, DSlice("r", "q", Let("a"), Let("k"), None)>>, <<>>, ExactGates),  \* valid unless overridden
         Hdr(VBase \o <<DLet("a", I2)>>, <<VReg>>, <<>>, ExactGates),                         \* duplicate let
         Hdr(VBase, <<VReg, DIndex("a", "q", I0)>>, <<>>, ExactGates),                        \* let / alias clash
         Hdr(VBase, <<DReg("q", Let("k")), DIndex("s", "q", I2)>>, <<>>, ExactGates),         \* let-sized register
         Hdr(VBase, <<VReg, DSlice("r", "q", I2, I0, NumI(-1))>>, <<>>, ExactGates),          \* descending slice (2 elements)
         Hdr(VBase, <<VReg, DSlice("r", "q", I0, I3, I2)>>, <<>>, ExactGates),                \* strided slice (2 elements)
         \* literal-bounded aliases over a source whose size is a constant: an override can pull the source from under them
         Hdr(VBase, <<DReg("q", Let("k")), DSlice("r", "q", I1, I3, None)>>, <<>>, ExactGates),
         Hdr(VBase, <<VReg, DSlice("w", "q", I0, Let("k"), None), DSlice("r", "w", I1, I3, None)>>, <<>>, ExactGates) }
\* macro w's register parameter q SHADOWS register q: "X q[2]" inside w is a different reference from "X q[2]" inside b
M_V == << MD("m", <<"x", "p">>, {"seq"}, { G("X", <<Qb("q", Par("p"))>>), G("R", <<Par("x"), Par("p")>>) }, {}, 1),
          \* (b is called by some programs and not by others: an index that is a constant, in a body nobody calls)
          MD("b", <<>>, {"seq"}, { G("X", <<QI("q", 2)>>), G("X", <<Qb("q", Let("k"))>>) }, {}, 1),
          MD("w", <<"q">>, {"seq"}, { G("X", <<QbP("q", I2)>>), G("X", <<QbP("q", I0)>>) }, {}, 1) >>
T_V == { G("X", <<QI("q", 0)>>), G("X", <<QI("q", 2)>>), G("X", <<QI("q", 3)>>), G("X", <<Qb("q", NumI(-1))>>),
         G("X", <<Qb("q", Let("k"))>>), G("X", <<Qb("q", Let("a"))>>), G("m", <<QI("q", 2), I3>>), G("m", <<QI("q", 0), I1>>),
         G("R", <<QI("q", 0), F15>>), G("X", <<Qb("a", I0)>>), G("X", <<Let("u")>>), G("U", <<QI("q", 0)>>),
         G("X", <<QI("q", 0), QI("q", 1)>>), G("R", <<QI("q", 1), Let("a")>>),
         G("X", <<QI("r", 1)>>), G("X", <<QI("r", 2)>>), G("w", <<RegA("r")>>), G("w", <<RegA("q")>>), G("b", <<>>),
         \* an undefined identifier (it used to be a key of the builder's own block-context flags)
         G("R", <<QI("q", 0), Let("__in_context_subcircuit__")>>),
         \* macro arguments of the wrong kind: a number where m passes its x on as a qubit, a qubit where p is a number
         G("m", <<I1, I1>>), G("m", <<QI("q", 0), QI("q", 1)>>), G("m", <<QI("q", 0), F15>>), G("w", <<QI("q", 0)>>) }
O_V == { OSub(I1) }

\* ---------------------------------------------------------------- C06: alias chains (two links over a register of size 3..4)
NoneOr(S) == {None} \cup { NumI(x) : x \in S }
Links(nm, src) == {DWhole(nm, src)} \cup { DIndex(nm, src, NumI(x)) : x \in 0..2 }
                  \cup { DSlice(nm, src, a, b, c) : a \in NoneOr({0, 1, 2}), b \in NoneOr({-1, 1, 2, 3, 4}), c \in NoneOr({-1, 1, 2}) }
                  \cup { DSlice(nm, src, Let("a"), Let("k"), None), DIndex(nm, src, Let("a")) }
ChainHdr(n, l1, l2) == Hdr(<<DLet("a", I1), DLet("k", I3)>>, <<DReg("q", NumI(n)), l1, l2>>, <<>>, ExactGates)
ChainOK(h) == LET p == [lets |-> h.lets, regs |-> h.regs, macros |-> <<>>, imports |-> <<>>, natives |-> h.natives, body |-> <<>>]
                  t == RegTab(p, Env(p, <<>>))
              IN \A r \in DOMAIN t : t[r].ok /\ Len(t[r].elems) >= 1      \* empty aliases are left unasserted
\* a reduced link set for the quick tier
LinksQ(nm, src) == {DWhole(nm, src)} \cup { DIndex(nm, src, NumI(x)) : x \in 0..1 }
                   \cup { DSlice(nm, src, a, b, c) : a \in NoneOr({0, 1}), b \in NoneOr({-1, 2, 3}), c \in NoneOr({-1, 2}) }
                   \cup { DSlice(nm, src, Let("a"), Let("k"), None), DIndex(nm, src, Let("a")) }
H_CHQ == { h \in { ChainHdr(n, l1, l2) : n \in 3..4, l1 \in LinksQ("r", "q"), l2 \in LinksQ("s", "r") } : ChainOK(h) }
H_CH == { h \in { ChainHdr(n, l1, l2) : n \in 3..4, l1 \in Links("r", "q"), l2 \in Links("s", "r") } : ChainOK(h) }
M_CH == << MD("m", <<"x">>, {"seq"}, { G("X", <<Par("x")>>) }, {}, 1) >>
T_CH == { G("X", <<QI("s", 0)>>), G("X", <<QI("s", 1)>>), G("X", <<QAl("s")>>), G("m", <<QI("s", 0)>>), G("X", <<Qb("s", Let("a"))>>),
          G("H", <<QI("r", 0)>>) }
O_CH == { OSub(I1) }
=============================================================================
