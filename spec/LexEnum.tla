-------------------------------- MODULE LexEnum --------------------------------
(* Character-level enumeration machine (C02, C16): the text grows by one character per step.  Every
   state is a text; the harness feeds each to the real lexer and parser and TLC validates the outcome
   against JaqalLex / JaqalParse (Conform_Lex).                                                  *)
EXTENDS JaqalLex, JaqalParse, Json
CONSTANTS Chars, MaxChars
VARIABLES text
GeneralChars == {97, 101, 49, 48, 46, 43, 45, 39, 47, 42, 10, 32, 123, 59, 36}     \* a e 1 0 . + - ' / * NL SP { ; $
CommentChars == {47, 42, 97, 10, 32}                                              \* / * a NL SP
KeywordChars == {97, 115, 46, 32, 49, 95}                                         \* a s . SP 1 _   (the keyword "as" next to dots, digits, underscores)
Init == text = <<>>
Next == Len(text) < MaxChars /\ \E c \in Chars : text' = Append(text, c)
Spec == Init /\ [][Next]_text
\* the lexer always makes progress and tokens are in increasing position order
LexSane == LET ts == Lex(text) IN \A j \in 1..(Len(ts) - 1) : ts[j].p < ts[j + 1].p
\* a text without an illegal character lexes completely
=============================================================================
