-------------------------------- MODULE AstEnum --------------------------------
(***************************************************************************)
(* The builder machine (DESIGN 3.3): a Jaqal program is built by the same   *)
(* actions a user of the builder API (or a writer of Jaqal text) performs:  *)
(* define the next macro, add a gate, open a block, close a block.          *)
(* Every behaviour that ends with all blocks closed and all macros defined  *)
(* is one program; TLC enumerates all of them within the constants.         *)
(* Legal nesting is the grammar's: {} at top level and inside <>; <> at top *)
(* level and inside {} / subcircuit; loop and subcircuit in sequential      *)
(* contexts; no subcircuit inside a subcircuit or a parallel block.         *)
(***************************************************************************)
EXTENDS JaqalSem, Json

CONSTANTS Headers,      \* set of [lets, regs, imports, natives]: header variants, one chosen initially
          MacroDefs,    \* Seq of [v, params, kinds (subset of {"seq","par"}), gates (set of gate stmts), mopen (openers), max]
          TopGates,     \* set of gate statements usable inside blocks of the main body
          OuterGates,   \* set of gate statements usable at the top level of the main body
          Openers,      \* set of [k:"seq"] | [k:"par"] | [k:"loop", count, par] | [k:"sub", iters]
          MaxNodes,     \* gates + opened blocks in the main body
          MaxDepth      \* open frames, top-level frame included

VARIABLES st
\* st = [hdr, macros, mi (index of the next macro to define), stk, nodes]
\* frame = [kind: "top"|"seq"|"par"|"sub", wrap: opener | [k:"macro"] | [k:"none"], items]

\* ---- constructors used by configurations
G(name, args) == [k |-> "gate", v |-> name, cls |-> "?", args |-> args]
Let(nm) == [k |-> "let", v |-> nm]
Par(nm) == [k |-> "param", v |-> nm]
RegA(nm) == [k |-> "reg", v |-> nm]
QAl(nm) == [k |-> "qalias", v |-> nm, res |-> NoRes]
Qb(r, ixx) == [k |-> "qubit", base |-> [k |-> "reg", v |-> r], idx |-> ixx, res |-> NoRes]
QbP(p, ixx) == [k |-> "qubit", base |-> [k |-> "param", v |-> p], idx |-> ixx, res |-> NoRes]
QI(r, n) == Qb(r, NumI(n))
OSeq == [k |-> "seq"]
OPar == [k |-> "par"]
OLoop(cnt, par) == [k |-> "loop", count |-> cnt, par |-> par]
OSub(it) == [k |-> "sub", iters |-> it]
DReg(nm, size) == [k |-> "reg", v |-> nm, size |-> size, src |-> "", mode |-> "", idx |-> None,
                   start |-> None, stop |-> None, step |-> None]
DWhole(nm, src) == [k |-> "alias", v |-> nm, size |-> None, src |-> src, mode |-> "whole", idx |-> None,
                    start |-> None, stop |-> None, step |-> None]
DIndex(nm, src, i) == [k |-> "alias", v |-> nm, size |-> None, src |-> src, mode |-> "index", idx |-> i,
                       start |-> None, stop |-> None, step |-> None]
DSlice(nm, src, a, b, c) == [k |-> "alias", v |-> nm, size |-> None, src |-> src, mode |-> "slice", idx |-> None,
                             start |-> a, stop |-> b, step |-> c]
DLet(nm, val) == [v |-> nm, val |-> val]
Hdr(lets, regs, imports, natives) == [lets |-> lets, regs |-> regs, imports |-> imports, natives |-> natives]

Frame(kind, wrap) == [kind |-> kind, wrap |-> wrap, items |-> <<>>]
NoW == [k |-> "none"]
MacW == [k |-> "macro"]

Init == \E h \in Headers :
          st = [hdr |-> h, macros |-> <<>>, mi |-> 1, stk |-> <<Frame("top", NoW)>>, nodes |-> 0]

Depth == Len(st.stk)
TopF == st.stk[Depth]
InMacro == Depth >= 2 /\ st.stk[2].wrap.k = "macro"
MacrosDone == st.mi > Len(MacroDefs)
Limit == IF InMacro THEN MacroDefs[st.mi].max ELSE MaxNodes
GateSet == IF InMacro THEN MacroDefs[st.mi].gates ELSE IF Depth = 1 THEN OuterGates ELSE TopGates
EnclosedBy(kinds) == \E d \in 1..Depth : st.stk[d].kind \in kinds

\* an opener with the field `any` may be opened in every context: the builder API does not enforce the grammar's nesting
\* (a loop as a direct branch of a parallel block cannot be written as text, but it can be built)
OLoopAny(cnt, par) == [k |-> "loop", count |-> cnt, par |-> par, any |-> TRUE]
OSeqAny == [k |-> "seq", any |-> TRUE]        \* a sequential block directly inside a sequential block, ...
OParAny == [k |-> "par", any |-> TRUE]        \* ... a parallel block directly inside a parallel one (buildable, not writable)
LegalOpen(o) ==
  IF "any" \in DOMAIN o THEN TRUE ELSE
  CASE o.k = "seq" -> TopF.kind \in {"top", "par"}
    [] o.k = "par" -> TopF.kind \in {"top", "seq", "sub"}
    [] o.k = "loop" -> TopF.kind \in {"top", "seq", "sub"}
    [] o.k = "sub" -> TopF.kind \in {"top", "seq"} /\ ~EnclosedBy({"sub", "par"})

Push(f) == [st EXCEPT !.stk = Append(@, f)]
AddItem(s, node) == [s EXCEPT !.stk[Len(s.stk)].items = Append(@, node)]

StartMacro ==
  /\ ~MacrosDone /\ Depth = 1
  /\ \E kd \in MacroDefs[st.mi].kinds :
       st' = [Push(Frame(kd, MacW)) EXCEPT !.nodes = 0]

AddGate ==
  /\ Depth > 1 \/ MacrosDone
  /\ st.nodes < Limit
  /\ \E g \in GateSet : st' = [AddItem(st, g) EXCEPT !.nodes = st.nodes + 1]

OpenBlock ==
  /\ Depth > 1 \/ MacrosDone
  /\ st.nodes < Limit /\ Depth < MaxDepth
  /\ \E o \in (IF InMacro THEN MacroDefs[st.mi].mopen ELSE Openers) :
       /\ LegalOpen(o)
       /\ LET kind == CASE o.k = "seq" -> "seq" [] o.k = "par" -> "par" [] o.k = "sub" -> "sub"
                        [] o.k = "loop" -> IF o.par THEN "par" ELSE "seq"
          IN st' = [Push(Frame(kind, o)) EXCEPT !.nodes = st.nodes + 1]

Blk(f) == [k |-> "blk", par |-> f.kind = "par", sub |-> f.kind = "sub",
           iters |-> IF f.kind = "sub" THEN f.wrap.iters ELSE NumI(1), body |-> f.items]

CloseBlock ==
  /\ Depth > 1
  /\ LET f == TopF
         p == [st EXCEPT !.stk = SubSeq(@, 1, Depth - 1)]
     IN IF f.wrap.k = "macro"
        THEN st' = [p EXCEPT !.macros = Append(@, [v |-> MacroDefs[st.mi].v, params |-> MacroDefs[st.mi].params,
                                                     body |-> Blk(f)]),
                              !.mi = st.mi + 1, !.nodes = 0]
        ELSE IF f.wrap.k = "loop"
        THEN st' = AddItem(p, [k |-> "loop", count |-> f.wrap.count, body |-> Blk(f)])
        ELSE st' = AddItem(p, Blk(f))

Next == StartMacro \/ AddGate \/ OpenBlock \/ CloseBlock
Spec == Init /\ [][Next]_st

Complete == Depth = 1 /\ MacrosDone
Prog == [lets |-> st.hdr.lets, regs |-> st.hdr.regs, macros |-> st.macros, imports |-> st.hdr.imports,
         natives |-> st.hdr.natives, body |-> st.stk[1].items]

\* always TRUE; prints every complete program as one JSON line (the harness collects them)
\* (the native gate table is replaced by a flag: the harness re-attaches the table, whose agreement with
\* JaqalGates!ExactGates is validated separately)
NatTag(nat) == IF nat = <<>> THEN <<>> ELSE IF nat = ActiveGates THEN <<"active">> ELSE <<"exact">>
Emit == Complete => PrintT(<<"PROG", ToJson([Prog EXCEPT !.natives = NatTag(@)])>>)

\* ---- spec-level theorems checked on every enumerated program
\* the meaning of a complete program is well defined (no BAD node) whenever the configuration is meant
\* to generate only valid programs
MeaningDefined == Complete => ~HasBad(Meaning(Prog, <<>>))
\* erasing subcircuit annotations commutes with meaning up to the Seq-in-Seq identification
\* (sanity of the two normal forms)
RECURSIVE Erase(_)
Erase(m) ==
  CASE m.k = "G" -> m
    [] m.k = "U" -> Erase(m.c[1])
    [] m.k = "L" -> [m EXCEPT !.c = <<Erase(m.c[1])>>]
    [] m.k \in {"S", "P"} -> [m EXCEPT !.c = Splice(m.k, [j \in DOMAIN m.c |-> Erase(m.c[j])])]
    [] OTHER -> m
\* alias arithmetic (C06): every valid alias denotes distinct qubits of the fundamental register, and the elements of
\* an alias of an alias are elements of its source (composition along the chain)
AliasSound == Complete =>
  LET t == RegTab(Prog, Env(Prog, <<>>))
      sizeOf(f) == Len(t[f].elems)
  IN \A r \in DOMAIN t : t[r].ok =>
        /\ \A a, b \in DOMAIN t[r].elems : a # b => t[r].elems[a] # t[r].elems[b]
        /\ \A a \in DOMAIN t[r].elems : t[r].elems[a] >= 0 /\ t[r].elems[a] < sizeOf(t[r].fund)
        /\ \A j \in DOMAIN Prog.regs : (Prog.regs[j].v = r /\ Prog.regs[j].k = "alias" /\ Prog.regs[j].src \in DOMAIN t) =>
              \A a \in DOMAIN t[r].elems : \E b \in DOMAIN t[Prog.regs[j].src].elems : t[Prog.regs[j].src].elems[b] = t[r].elems[a]
EraseAgrees == Complete => Erase(Meaning(Prog, <<>>)) = MeaningModSub(Prog, <<>>)
=============================================================================
