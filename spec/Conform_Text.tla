------------------------------- MODULE Conform_Text -------------------------------
(* Validation of the entry points on arbitrary text (C16): case = [text: Seq(char codes), parse: [cls, eof, off,
   haspos], run: [cls, eof, off, haspos]] for parse_jaqal_string and run_jaqal_string.  The spec's own lexer and
   grammar say whether the text is lexically / syntactically well-formed.                              *)
EXTENDS JaqalLex, JaqalParse, Json, IOUtils
Cases == JsonDeserialize(IOEnv.CASES)
F(name, failed) == IF failed THEN {name} ELSE {}
Allowed == {"ok", "parse_error", "jaqal_error", "import_error"}
TClauses(c) ==
  LET ts == Lex(c.text)
      ok == LexOK(ts)
      n == IF ok THEN Len(ts) ELSE Len(ts) - 1
      toks == [j \in 1..n |-> [t |-> ts[j].t, v |-> ts[j].v]]
      synbad == ~ok \/ Outcome(toks).v = "syntax"
  IN F("terminates", c.parse.cls = "timeout" \/ c.run.cls = "timeout")
     \cup F("error_type", c.parse.cls \notin (Allowed \cup {"timeout"}) \/ c.run.cls \notin (Allowed \cup {"timeout"}))
     \cup F("syntax_is_parse_error", synbad /\ (c.parse.cls # "parse_error" \/ c.run.cls # "parse_error"))
     \* (history independence on the caller's side: the same gate-set dictionary handed to every call of the process)
     \cup F("shared_gateset_same", c.shared.cls # c.shared.fresh_cls \/ ~c.shared.unchanged)
     \cup F("has_position", (c.parse.cls = "parse_error" /\ ~c.parse.haspos) \/ (c.run.cls = "parse_error" /\ ~c.run.haspos))
     \* (an integer literal of more than 4300 digits is grammatical, but the host language cannot convert it: the
     \*  implementation refuses it with a JaqalParseError at the literal - a JaqalError with a position, which C16 allows)
     \cup F("wellformed_not_syntax_error", ~synbad /\ Outcome(toks).v = "ok" /\ c.parse.cls = "parse_error" /\
              ~\E j \in DOMAIN ts : ts[j].t = "INT" /\ MatchInt(c.text, ts[j].p) > 4300)
\* trigger predicates for known findings (evaluated here, never in the harness)
TTriggers(c) ==
  LET ts == Lex(c.text) IN
  \* a register statement whose size is a literal of more than 9 digits (no machine can hold its qubits)
  F("HugeRegisterLiteral", \E j \in 1..(Len(ts) - 3) :
       ts[j].t = "register" /\ ts[j + 1].t = "ID" /\ ts[j + 2].t = "[" /\ ts[j + 3].t = "INT" /\ MatchInt(c.text, ts[j + 3].p) > 9)
VARIABLE i
Init == i = 1
Case == /\ i <= Len(Cases)
        /\ i' = i + 1
        /\ LET cl == TClauses(Cases[i]) IN cl = {} \/ PrintT(<<"V", Cases[i].id, cl, TTriggers(Cases[i])>>)
Done == i = Len(Cases) + 1 /\ i' = i + 1 /\ PrintT(<<"DONE", i - 1>>)
Next == Case \/ Done
Spec == Init /\ [][Next]_i
=============================================================================
