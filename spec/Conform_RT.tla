------------------------------- MODULE Conform_RT -------------------------------
(***************************************************************************)
(* Trace validation of the generate / parse round trip (C01) and of circuit *)
(* equality (C20).                                                          *)
(* kind "rt":  [c0: Prog, gen: [cls, text: Seq(char codes)], c1: [cls,      *)
(*              prog], eq01, text_fix (second generation reproduces the     *)
(*              text byte for byte)]                                        *)
(*     machine view: state (c, t); actions Generate: t' = gen(c),           *)
(*     Parse: c' = parse(t); from c0, Generate;Parse returns to c0 and a    *)
(*     second Generate reproduces t.                                        *)
(* kind "eq":  [a, b: Prog, eq_ab, eq_ba, eq_aa, eq_bb, rt_a] - a pair of   *)
(*              parser-produced circuits (b a single-token mutant of a)     *)
(***************************************************************************)
EXTENDS PassClauses, JaqalParse, JaqalLex, Json, IOUtils
Cases == JsonDeserialize(IOEnv.CASES)

SpecTokens(text) == LET ts == Lex(text) IN [j \in DOMAIN ts |-> [t |-> ts[j].t, v |-> ts[j].v]]
SpecLexOK(text) == LexOK(Lex(text))
SpecSyntaxOK(text) == Outcome(SpecTokens(text)).v = "ok"

SameDecls(a, b) == LetsOf(a) = LetsOf(b) /\ RegsOf(a) = RegsOf(b) /\ SeqToSet(a.imports) = SeqToSet(b.imports)
SameMeaning(a, b) == Meaning(a, <<>>) = Meaning(b, <<>>) /\ MacroMeanings(a, <<>>) = MacroMeanings(b, <<>>)
                     /\ RegTabOf(a, <<>>) = RegTabOf(b, <<>>) /\ Env(a, <<>>) = Env(b, <<>>)

RT(c) ==
  F("generates", c.gen.cls # "ok")
  \cup (IF c.gen.cls # "ok" THEN {}
        ELSE F("spec_lex_ok", ~SpecLexOK(c.gen.text))
             \cup F("spec_syntax_ok", SpecLexOK(c.gen.text) /\ ~SpecSyntaxOK(c.gen.text))
             \cup F("reparses", c.c1.cls # "ok")
             \cup (IF c.c1.cls # "ok" THEN {}
                   ELSE F("reparse_equal", c.c1.prog # c.c0)
                        \cup F("eq_true", ~c.eq01)
                        \cup F("meaning", ~SameMeaning(c.c0, c.c1.prog))
                        \cup F("fixpoint", ~c.text_fix)))

EQ(c) ==
  LET same == SameDecls(c.a, c.b) /\ SameMeaning(c.a, c.b) /\ MacroSigs(c.a) = MacroSigs(c.b) IN
  F("reflexive", ~c.eq_aa \/ ~c.eq_bb)
  \cup F("symmetric", c.eq_ab # c.eq_ba)
  \cup F("roundtrip", ~c.rt_a)
  \cup F("eq_implies_same", c.eq_ab /\ ~same)
  \cup F("diff_implies_neq", c.eq_ab /\ Meaning(c.a, <<>>) # Meaning(c.b, <<>>))
  \cup F("same_implies_eq", c.same_tokens /\ ~c.eq_ab)

RTClauses(c) == CASE c.kind = "rt" -> RT(c) [] c.kind = "eq" -> EQ(c) [] OTHER -> {"unknown_kind"}

HasExpLiteral(prog) ==
  LET isExp(x) == x.k = "num" /\ x.t = "flt" /\ \E p \in 1..Len(x.v) : SubSeq(x.v, p, p) = "e" IN
  \/ \E j \in DOMAIN prog.lets : isExp(prog.lets[j].val)
  \/ \E j \in DOMAIN AllStmts(prog) : AllStmts(prog)[j].k = "gate" /\
        \E a \in DOMAIN AllStmts(prog)[j].args : isExp(AllStmts(prog)[j].args[a])
RTTriggers(c) == IF c.kind = "rt" THEN F("ExponentReprLiteral", HasExpLiteral(c.c0)) ELSE {}

VARIABLE i
Init == i = 1
Case == /\ i <= Len(Cases)
        /\ i' = i + 1
        /\ LET cl == RTClauses(Cases[i]) IN
             cl = {} \/ PrintT(<<"V", Cases[i].id, cl, RTTriggers(Cases[i])>>)
Done == i = Len(Cases) + 1 /\ i' = i + 1 /\ PrintT(<<"DONE", i - 1>>)
Next == Case \/ Done
Spec == Init /\ [][Next]_i
=============================================================================
