------------------------------ MODULE JaqalGateEnv ------------------------------
(***************************************************************************)
(* Which gate definition is in effect (C14, last clauses).                  *)
(*                                                                          *)
(* A program can receive native gate definitions from two sources: the      *)
(* dictionary injected by the caller, and the pulse modules named by its    *)
(* "from M usepulses *" statements (loaded only when autoloading is on).    *)
(* The environment is built as a machine:                                   *)
(*   Inject   the injected dictionary comes first and is never overridden;  *)
(*   Import   each usepulses statement, in program order, (re)defines every *)
(*            name of its module that the injected dictionary lacks: a      *)
(*            later import overrides an earlier one;                        *)
(*   Call     a gate statement is checked against the definition in effect; *)
(*            with no gate set in force (nothing injected, autoloading off) *)
(*            any gate name with any arguments is an anonymous gate.        *)
(* The enumeration machine GateEnvEnum produces every (injected set, autoload,    *)
(* import sequence, call) over two pulse modules with an overlapping name   *)
(* (X has different signatures in all three sources).                       *)
(***************************************************************************)
EXTENDS JaqalGateDef

\* the two pulse modules of harness/pulses and the injectable dictionaries
ModuleGates(m) ==
  CASE m = "vpulses" -> [prepare_all |-> <<>>, measure_all |-> <<>>, X |-> <<"qubit">>, R |-> <<"qubit", "int">>]
    [] m = "wpulses" -> [X |-> <<"qubit", "float">>, Y |-> <<"qubit">>]
InjectedGates(i) ==
  CASE i = "none" -> <<>>                                        \* nothing injected (None)
    [] i = "ix" -> [X |-> <<"qubit", "qubit">>]                  \* overrides X of both modules
    [] i = "iz" -> [Z |-> <<"qubit">>]                           \* disjoint from both modules
Modules == {"vpulses", "wpulses"}
Injections == {"none", "ix", "iz"}

Override(f, g) == [n \in DOMAIN f \cup DOMAIN g |-> IF n \in DOMAIN g THEN g[n] ELSE f[n]]
RestrictTo(f, S) == [n \in S |-> f[n]]

RECURSIVE ImportAll(_, _, _)
ImportAll(env, inj, imps) ==
  IF imps = <<>> THEN env
  ELSE LET mg == ModuleGates(Head(imps))
           fresh == RestrictTo(mg, DOMAIN mg \ DOMAIN inj)         \* injected names are never overridden
       IN ImportAll(Override(env, fresh), inj, Tail(imps))

\* the native gate table of the circuit
GateEnv(i, autoload, imps) ==
  LET inj == InjectedGates(i) IN IF autoload THEN ImportAll(inj, inj, imps) ELSE inj
\* is a gate set in force at all?
InForce(i, autoload) == i # "none" \/ autoload

Calls == { [v |-> "X", args |-> <<"qubit">>], [v |-> "X", args |-> <<"qubit", "float">>], [v |-> "X", args |-> <<"qubit", "qubit">>],
           [v |-> "Y", args |-> <<"qubit">>], [v |-> "R", args |-> <<"qubit", "int">>], [v |-> "R", args |-> <<"qubit", "float">>],
           [v |-> "Z", args |-> <<"qubit">>], [v |-> "U", args |-> <<"qubit">>] }

CallAccepted(i, autoload, imps, call) ==
  LET env == GateEnv(i, autoload, imps) IN
  IF ~InForce(i, autoload) THEN TRUE
  ELSE call.v \in DOMAIN env /\ CallOK(env[call.v], call.args)

=============================================================================
