-------------------------------- MODULE JaqalExec --------------------------------
(***************************************************************************)
(* Execution semantics (DESIGN 3.4, Appendix B.4-B.5): subcircuit discovery *)
(* (C12), the unrolled walk and its readouts (C08), exact emulation (C03),  *)
(* used qubits and parallel overlap (C13), result views (C15).              *)
(* All operators work on the meaning normal form of JaqalSem with           *)
(* subcircuit blocks expanded to prepare_all ... measure_all.               *)
(***************************************************************************)
EXTENDS PassClauses

ExecTree(prog, ovr) == ExpandU(Meaning(prog, ovr), "prepare_all", "measure_all")

EvKind(g) == IF g.v = "prepare_all" THEN "P" ELSE IF g.v = "measure_all" THEN "M" ELSE "G"

\* ------------------------------------------------------------- flat order and unrolling
\* Flat events (loops traversed once): [t, g, path]; path = ids of the enclosing loops that repeat
\* (count > 1).  An event is identified by its position in the flat sequence ("fid", 1-based).
RECURSIVE FlatEv(_, _, _)
RECURSIVE FlatSeq(_, _, _)
FlatEv(m, path, base) ==
  CASE m.k = "G" -> << [t |-> EvKind(m), g |-> m, path |-> path] >>
    [] m.k = "L" -> FlatEv(m.c[1], IF m.cnt.n > 1 THEN Append(path, base * 100 + Len(path)) ELSE path, base)
    [] m.k \in {"S", "P"} -> FlatSeq(m.c, path, base)
    [] OTHER -> <<>>
FlatSeq(ms, path, base) ==
  IF ms = <<>> THEN <<>>
  ELSE LET h == FlatEv(Head(ms), path, base) IN h \o FlatSeq(Tail(ms), path, base + Len(h))
Flat(tree) == FlatEv(tree, <<>>, 0)

RECURSIVE RepSeq(_, _)
RepSeq(n, s) == IF n <= 0 THEN <<>> ELSE s \o RepSeq(n - 1, s)
\* the fids of the events executed, loops repeated
RECURSIVE UnrollIds(_, _)
RECURSIVE UnrollSeq(_, _)
RECURSIVE FlatSize(_)
RECURSIVE FlatSizeSeq(_)
FlatSize(m) == CASE m.k = "G" -> 1 [] m.k = "L" -> FlatSize(m.c[1]) [] m.k \in {"S", "P"} -> FlatSizeSeq(m.c) [] OTHER -> 0
FlatSizeSeq(ms) == IF ms = <<>> THEN 0 ELSE FlatSize(Head(ms)) + FlatSizeSeq(Tail(ms))
UnrollIds(m, base) ==
  CASE m.k = "G" -> <<base + 1>>
    [] m.k = "L" -> RepSeq(m.cnt.n, UnrollIds(m.c[1], base))
    [] m.k \in {"S", "P"} -> UnrollSeq(m.c, base)
    [] OTHER -> <<>>
UnrollSeq(ms, base) ==
  IF ms = <<>> THEN <<>> ELSE UnrollIds(Head(ms), base) \o UnrollSeq(Tail(ms), base + FlatSize(Head(ms)))
Unroll(tree) == UnrollIds(tree, 0)

\* ------------------------------------------------------------- C12: the bracket rule, declaratively
\* Lenient scan of an event-kind sequence: P opens (a repeated P discards what was open), M closes or is
\* a violation, G outside is a violation.  ts[j] is the kind of the j-th event; ids[j] its identity.
RECURSIVE ScanFrom(_, _, _, _, _)
ScanFrom(ts, ids, j, open, acc) ==
  IF j > Len(ts) THEN acc
  ELSE CASE ts[j] = "P" -> ScanFrom(ts, ids, j + 1, ids[j], acc)
         [] ts[j] = "M" -> IF open = 0
                           THEN ScanFrom(ts, ids, j + 1, 0, [acc EXCEPT !.rules = @ \cup {"measure_without_prepare"}])
                           ELSE ScanFrom(ts, ids, j + 1, 0, [acc EXCEPT !.pairs = Append(@, <<open, ids[j]>>)])
         [] OTHER -> IF open = 0
                     THEN ScanFrom(ts, ids, j + 1, 0, [acc EXCEPT !.rules = @ \cup {"gate_outside"}])
                     ELSE ScanFrom(ts, ids, j + 1, open, acc)
Scan(ts, ids) == ScanFrom(ts, ids, 1, 0, [rules |-> {}, pairs |-> <<>>])

SeqRange(s) == { s[j] : j \in DOMAIN s }
FlatScan(flat) == Scan([j \in DOMAIN flat |-> flat[j].t], [j \in DOMAIN flat |-> j])
LoopRuleBroken(flat, pairs) ==
  \E x \in DOMAIN pairs : SeqRange(flat[pairs[x][2]].path) \ SeqRange(flat[pairs[x][1]].path) # {}
\* [accept, rules (the violated ones), pairs (subcircuit k = k-th pair, as <<fid of P, fid of M>>)]
DiscoverRule(tree) ==
  LET flat == Flat(tree)
      sc == FlatScan(flat)
      rules == sc.rules \cup (IF LoopRuleBroken(flat, sc.pairs) THEN {"loop_rule"} ELSE {})
  IN [accept |-> rules = {}, rules |-> rules, pairs |-> sc.pairs]

\* ------------------------------------------------------------- C12, R7: the implementation's discovery algorithm
\* A transcription of DiscoverSubcircuits (walkers.py) as a fold over the tree: the walk state is
\*   [cur (fid of the prepare_all of the open trace, 0 = none), closed (Seq of <<P fid, M fid>>), err (rules hit)]
\* A block entered by a repeating loop remembers the trace that was open at its entry and fails if that very
\* trace has been closed when the block ends (the repaired test: commit "a repeating loop is rejected only if
\* it closes a subcircuit opened before it").  Pinned = TRUE gives the original test (a trace was open at entry and
\* SOME subcircuit was closed inside).
RECURSIVE DAlg(_, _, _, _, _)
RECURSIVE DAlgSeq(_, _, _, _, _)
\* m: node, base: flat events before m, reps: repetition count passed down by an enclosing loop statement
DAlg(m, base, reps, w, pinned) ==
  CASE m.k = "G" ->
         LET fid == base + 1
             kind == EvKind(m)
         IN CASE kind = "P" -> [w EXCEPT !.cur = fid]
              [] kind = "M" -> IF w.cur = 0 THEN [w EXCEPT !.err = @ \cup {"measure_without_prepare"}]
                               ELSE [w EXCEPT !.closed = Append(@, <<w.cur, fid>>), !.cur = 0]
              [] OTHER -> IF w.cur = 0 THEN [w EXCEPT !.err = @ \cup {"gate_outside"}] ELSE w
    [] m.k = "L" -> DAlg(m.c[1], base, m.cnt.n, w, pinned)          \* visit_LoopStatement: visit the body with reps
    [] m.k \in {"S", "P"} ->
         LET entry == w.cur
             count == Len(w.closed)
             w2 == DAlgSeq(m.c, base, 1, w, pinned)                 \* statements inside are visited with reps = 1
             closedEntry == entry # 0 /\ \E x \in (count + 1)..Len(w2.closed) : w2.closed[x][1] = entry
             bad == IF pinned THEN entry # 0 /\ reps > 1 /\ Len(w2.closed) # count
                    ELSE reps > 1 /\ closedEntry
         IN IF bad THEN [w2 EXCEPT !.err = @ \cup {"loop_rule"}] ELSE w2
    [] OTHER -> w
DAlgSeq(ms, base, j, w, pinned) ==
  IF j > Len(ms) THEN w
  ELSE DAlgSeq(ms, base + FlatSize(ms[j]), j + 1, DAlg(ms[j], base, 1, w, pinned), pinned)
\* (an error aborts the real walk; the transcription keeps going and collects every rule it would have hit first or later)
DiscoverAlg(tree, pinned) ==
  LET w == DAlg(tree, 0, 1, [cur |-> 0, closed |-> <<>>, err |-> {}], pinned)
  IN [accept |-> w.err = {}, rules |-> w.err, pairs |-> w.closed]

\* ------------------------------------------------------------- C08: visits of the unrolled program
PairIndex(pairs, pr) == IF \E x \in DOMAIN pairs : pairs[x] = pr THEN CHOOSE x \in DOMAIN pairs : pairs[x] = pr ELSE 0
\* [indomain, visits (0-based subcircuit numbers in execution order)]
VisitsOf(tree) ==
  LET flat == Flat(tree)
      fp == FlatScan(flat).pairs
      un == Unroll(tree)
      us == Scan([j \in DOMAIN un |-> flat[un[j]].t], un)
      idx == [x \in DOMAIN us.pairs |-> PairIndex(fp, us.pairs[x])]
  IN [indomain |-> us.rules = {} /\ \A x \in DOMAIN idx : idx[x] > 0,
      visits |-> [x \in DOMAIN idx |-> idx[x] - 1]]

\* the gates executed in the first visit of subcircuit k (1-based): the G events between the P and the M
\* of the first unrolled occurrence of the pair
SubGates(tree, k) ==
  LET flat == Flat(tree)
      fp == FlatScan(flat).pairs
      un == Unroll(tree)
      \* position of the closing M of the first unrolled occurrence
      ms == { j \in DOMAIN un : un[j] = fp[k][2] /\
                \E i \in 1..(j - 1) : un[i] = fp[k][1] /\ \A x \in (i + 1)..(j - 1) : flat[un[x]].t = "G" }
  IN IF ms = {} THEN [visited |-> FALSE, gates |-> <<>>]
     ELSE LET jm == CHOOSE j \in ms : \A j2 \in ms : j <= j2
              ip == CHOOSE i \in 1..(jm - 1) : un[i] = fp[k][1] /\ \A x \in (i + 1)..(jm - 1) : flat[un[x]].t = "G"
          IN [visited |-> TRUE, gates |-> [x \in 1..(jm - ip - 1) |-> flat[un[ip + x]].g]]

\* ------------------------------------------------------------- C13: used qubits
\* set of fundamental indices used by a meaning node; busy gates use all qubits, idle gates none
GateCls(prog, name) ==
  IF name \in NativeNames(prog) THEN NativeOf(prog, name).cls
  ELSE IF name \in {"prepare_all", "measure_all"} /\ prog.natives = <<>> THEN "anon" ELSE "anon"
RECURSIVE UsedOf(_, _, _)
UsedOf(m, prog, all) ==
  CASE m.k = "G" ->
         LET cls == GateCls(prog, m.v) IN
         IF cls = "busy" THEN all
         ELSE IF cls = "idle" THEN {}
         ELSE UNION { CASE m.args[j].k = "q" -> {m.args[j].ix}
                        [] m.args[j].k = "regv" -> SeqRange(m.args[j].elems)
                        [] OTHER -> {} : j \in DOMAIN m.args }
    [] m.k \in {"L", "U"} -> UsedOf(m.c[1], prog, all)
    [] m.k \in {"S", "P"} -> UNION { UsedOf(m.c[j], prog, all) : j \in DOMAIN m.c }
    [] OTHER -> {}
\* some parallel block has two branches whose used sets intersect
RECURSIVE Overlap(_, _, _)
Overlap(m, prog, all) ==
  CASE m.k = "G" -> FALSE
    [] m.k \in {"L", "U"} -> Overlap(m.c[1], prog, all)
    [] m.k = "S" -> \E j \in DOMAIN m.c : Overlap(m.c[j], prog, all)
    [] m.k = "P" -> \/ \E j \in DOMAIN m.c : Overlap(m.c[j], prog, all)
                    \/ \E a, b \in DOMAIN m.c : a < b /\ UsedOf(m.c[a], prog, all) \cap UsedOf(m.c[b], prog, all) # {}
    [] OTHER -> FALSE

\* ------------------------------------------------------------- C03: exact emulation
\* amplitudes are Gaussian integers <<re, im>> with a common factor 1/sqrt(2)^k
CAdd(a, b) == <<a[1] + b[1], a[2] + b[2]>>
CMul(a, b) == <<a[1] * b[1] - a[2] * b[2], a[1] * b[2] + a[2] * b[1]>>
One == <<1, 0>>  Zero == <<0, 0>>  Iu == <<0, 1>>  MOne == <<-1, 0>>  MIu == <<0, -1>>
IPow(k) == CASE k % 4 = 0 -> One [] k % 4 = 1 -> Iu [] k % 4 = 2 -> MOne [] OTHER -> MIu
Bit(x, q) == (x \div (2 ^ q)) % 2

\* permutation matrices: column c maps to row Perm(c)
PermMat(d, Perm(_)) == [r \in 1..d |-> [c \in 1..d |-> IF Perm(c - 1) = r - 1 THEN One ELSE Zero]]
DiagMat(d, Dg(_)) == [r \in 1..d |-> [c \in 1..d |-> IF r = c THEN Dg(r - 1) ELSE Zero]]

\* Mat(name, classical arguments): [has, e (power of 1/sqrt 2), d, m]; bit j of a matrix index <-> the
\* gate's (j+1)-th qubit argument
NoMat == [has |-> FALSE, e |-> 0, d |-> 0, m |-> <<>>]
Mat(name, cargs) ==
  CASE name = "X" -> [has |-> TRUE, e |-> 0, d |-> 2, m |-> <<<<Zero, One>>, <<One, Zero>>>>]
    [] name = "H" -> [has |-> TRUE, e |-> 1, d |-> 2, m |-> <<<<One, One>>, <<One, MOne>>>>]
    [] name = "S" -> [has |-> TRUE, e |-> 0, d |-> 2, m |-> <<<<One, Zero>>, <<Zero, Iu>>>>]
    [] name \in {"R", "Pf"} -> [has |-> TRUE, e |-> 0, d |-> 2, m |-> <<<<One, Zero>>, <<Zero, IPow(cargs[1])>>>>]
    [] name = "CX" -> [has |-> TRUE, e |-> 0, d |-> 4,
                       m |-> PermMat(4, LAMBDA c : Bit(c, 0) + 2 * ((Bit(c, 1) + Bit(c, 0)) % 2))]
    [] name = "SW" -> [has |-> TRUE, e |-> 0, d |-> 4, m |-> PermMat(4, LAMBDA c : Bit(c, 1) + 2 * Bit(c, 0))]
    [] name = "CR" -> [has |-> TRUE, e |-> 0, d |-> 4, m |-> DiagMat(4, LAMBDA r : IF r = 3 THEN IPow(cargs[1]) ELSE One)]
    [] name = "CCX" -> [has |-> TRUE, e |-> 0, d |-> 8,
                        m |-> PermMat(8, LAMBDA c : Bit(c, 0) + 2 * Bit(c, 1) + 4 * ((Bit(c, 2) + Bit(c, 0) * Bit(c, 1)) % 2))]
    [] name = "F" -> [has |-> TRUE, e |-> 0, d |-> 8,
                      m |-> PermMat(8, LAMBDA c : IF Bit(c, 0) = 1 THEN 1 + 2 * Bit(c, 2) + 4 * Bit(c, 1) ELSE c)]
    [] OTHER -> NoMat

RECURSIVE SubIdx(_, _, _)
SubIdx(x, qs, j) == IF j > Len(qs) THEN 0 ELSE Bit(x, qs[j]) * 2 ^ (j - 1) + SubIdx(x, qs, j + 1)
RECURSIVE SetBits(_, _, _, _)
SetBits(x, qs, s, j) ==
  IF j > Len(qs) THEN x
  ELSE LET q == qs[j]
           cleared == x - Bit(x, q) * 2 ^ q
       IN SetBits(cleared + Bit(s, j - 1) * 2 ^ q, qs, s, j + 1)
RECURSIVE SumC(_, _)
SumC(f, d) == IF d = 0 THEN Zero ELSE CAdd(f[d], SumC(f, d - 1))

\* qubit arguments (fundamental indices, in argument order) and classical arguments (integers) of a G node
QArgs(g) == LET js == { j \in DOMAIN g.args : g.args[j].k = "q" }
                RECURSIVE Pick(_)
                Pick(j) == IF j > Len(g.args) THEN <<>>
                           ELSE (IF g.args[j].k = "q" THEN <<g.args[j].ix>> ELSE <<>>) \o Pick(j + 1)
            IN Pick(1)
CArgs(g) == LET RECURSIVE Pick(_)
                Pick(j) == IF j > Len(g.args) THEN <<>>
                           \* (a non-integral value is outside the exact family: it travels as -999, the value the
                           \*  harness records for it, and the state of such a subcircuit is not computed - HasRealArg)
                           ELSE (IF g.args[j].k = "num" THEN <<IF g.args[j].i THEN g.args[j].n ELSE -999>> ELSE <<>>) \o Pick(j + 1)
            IN Pick(1)
HasRealArg(gs) == \E j \in DOMAIN gs : \E a \in DOMAIN gs[j].args : gs[j].args[a].k = "num" /\ ~gs[j].args[a].i

AllEven(v) == \A x \in DOMAIN v : v[x][1] % 2 = 0 /\ v[x][2] % 2 = 0
RECURSIVE Reduce(_)
Reduce(st) == IF st.k >= 2 /\ AllEven(st.vec)
              THEN Reduce([vec |-> [x \in DOMAIN st.vec |-> <<st.vec[x][1] \div 2, st.vec[x][2] \div 2>>], k |-> st.k - 2])
              ELSE st

Init0(n) == [vec |-> [x \in 0..(2 ^ n - 1) |-> IF x = 0 THEN One ELSE Zero], k |-> 0]
\* one gate application (action Apply of the emulator machine); gates without a unitary are skipped
ApplyGate(st, g, n, prog) ==
  LET cls == GateCls(prog, g.v)
      mt == IF cls \in {"idle", "busy"} THEN NoMat ELSE Mat(g.v, CArgs(g))
      qs == QArgs(g)
  IN IF ~mt.has THEN st
     ELSE Reduce([vec |-> TLCEval([x \in 0..(2 ^ n - 1) |->
                            LET r == SubIdx(x, qs, 1) IN
                            SumC([c \in 1..mt.d |-> CMul(mt.m[r + 1][c], st.vec[SetBits(x, qs, c - 1, 1)])], mt.d)]),
                  k |-> st.k + mt.e])
RECURSIVE RunGates(_, _, _, _, _)
RunGates(st, gs, j, n, prog) == IF j > Len(gs) THEN st ELSE RunGates(ApplyGate(st, gs[j], n, prog), gs, j + 1, n, prog)
Emulate(gs, n, prog) == RunGates(Init0(n), gs, 1, n, prog)
Norm2(v) == LET RECURSIVE S(_) S(x) == IF x < 0 THEN 0 ELSE v[x][1] * v[x][1] + v[x][2] * v[x][2] + S(x - 1) IN S(Cardinality(DOMAIN v) - 1)

\* ------------------------------------------------------------- C15: result views
\* bit string of outcome v on n qubits, qubit 0 leftmost (as a sequence of 0/1)
BitsOf(v, n) == [j \in 1..n |-> Bit(v, j - 1)]
RECURSIVE OfBits(_, _)
OfBits(bits, j) == IF j > Len(bits) THEN 0 ELSE bits[j] * 2 ^ (j - 1) + OfBits(bits, j + 1)
=============================================================================
