-------------------------------- MODULE WalkAlg --------------------------------
(***************************************************************************)
(* R7: a transcription of the implementation's trace walker (TraceVisitor:  *)
(* index, objective, address, an explicit call stack with the walk status   *)
(* saved per loop) next to the requirement (the visits of the unrolled      *)
(* program).  TLC checks WalkAlg => requirement (Safety, PrefixOK) and      *)
(* termination (liveness under weak fairness, no state constraint).         *)
(* Fixed = FALSE is the algorithm of the pinned tree: TLC reports a lasso   *)
(* for a zero-count loop around a subcircuit (the C08 hang);                *)
(* Fixed = TRUE adds the repair (commit "walking a circuit terminates...":  *)
(* when a loop does not iterate, the traces starting inside it are skipped).*)
(***************************************************************************)
EXTENDS Naturals, Integers, Sequences, FiniteSets, TLC, SequencesExt

G(v) == [k |-> "g", v |-> v, n |-> 0, c |-> <<>>]
SeqB(c) == [k |-> "seq", v |-> "", n |-> 0, c |-> c]
Loop(n, b) == [k |-> "loop", v |-> "", n |-> n, c |-> <<b>>]
Subc(c) == SeqB(<<G("P")>> \o c \o <<G("M")>>)

\* programs (already expanded): body blocks
Progs == <<
  SeqB(<< Subc(<<G("G")>>), Loop(2, SeqB(<< Subc(<<>>), Loop(2, SeqB(<<Subc(<<G("G")>>)>>)) >>)) >>),
  SeqB(<< Loop(0, SeqB(<< Subc(<<G("G")>>) >>)), Subc(<<>>) >>),
  SeqB(<< Loop(1, SeqB(<< G("P"), G("M") >>)), G("P"), Loop(3, SeqB(<<G("G")>>)), G("M") >>),
  SeqB(<< Loop(2, SeqB(<< Loop(0, SeqB(<< Subc(<<>>) >>)), Subc(<<G("G")>>) >>)), Subc(<<>>) >>),
  SeqB(<< Loop(0, SeqB(<< Subc(<<>>), Loop(2, SeqB(<< Subc(<<>>) >>)) >>)), Loop(2, SeqB(<< Subc(<<>>) >>)) >>),
  SeqB(<< Subc(<<>>), Loop(3, SeqB(<< Loop(2, SeqB(<< Subc(<<>>), Subc(<<G("G")>>) >>)) >>)), Loop(0, SeqB(<<>>)) >>),
  \* a prepare_all repeated by a loop, closed once; a measure_all that is never executed
  SeqB(<< Loop(2, SeqB(<< G("P") >>)), G("M") >>),
  SeqB(<< G("P"), Loop(0, SeqB(<< G("M") >>)), Subc(<<>>) >>)
>>
CONSTANTS Which, Fixed
Prog == Progs[Which]

\* ---------- reference: flat-order trace starts and unrolled visits ----------
RECURSIVE FlatEv(_, _)      \* events with addresses, loops ignored
RECURSIVE FlatEvSeq(_, _, _)
FlatEvSeq(cs, addr, i) == IF i > Len(cs) THEN <<>> ELSE FlatEv(cs[i], addr \o <<i-1>>) \o FlatEvSeq(cs, addr, i+1)
FlatEv(nd, addr) == CASE nd.k = "g" -> << [v |-> nd.v, a |-> addr] >>
                      [] nd.k = "seq" -> FlatEvSeq(nd.c, addr, 1)
                      [] nd.k = "loop" -> FlatEvSeq(nd.c[1].c, SubSeq(addr,1,Len(addr)), 1)
\* note: statement i of a block at address A has address A \o <<i>>; a loop's body statements get A_loop \o <<j>>
TopEv == FlatEvSeq(Prog.c, <<>>, 1)

\* the walker's objectives.  Pinned algorithm: the START of every trace (address of the last P before each M, flat
\* order); repaired algorithm (commit "a readout is produced when a subcircuit's measure_all is reached"): its END
\* (the address of that M).
RECURSIVE Starts(_, _, _)
Starts(ev, i, cur) == IF i > Len(ev) THEN <<>>
                      ELSE IF ev[i].v = "P" THEN Starts(ev, i+1, <<ev[i].a>>)
                      ELSE IF ev[i].v = "M" THEN cur \o Starts(ev, i+1, <<>>)
                      ELSE Starts(ev, i+1, cur)
RECURSIVE Ends(_, _, _)
Ends(ev, i, open) == IF i > Len(ev) THEN <<>>
                     ELSE IF ev[i].v = "P" THEN Ends(ev, i+1, TRUE)
                     ELSE IF ev[i].v = "M" THEN (IF open THEN <<ev[i].a>> ELSE <<>>) \o Ends(ev, i+1, FALSE)
                     ELSE Ends(ev, i+1, open)
StartTraces == Starts(TopEv, 1, <<>>)
Traces == IF Fixed THEN Ends(TopEv, 1, FALSE) ELSE StartTraces
TraceIdx(a) == CHOOSE j \in 1..Len(StartTraces) : StartTraces[j] = a

RECURSIVE UnEv(_, _)
RECURSIVE UnEvSeq(_, _, _)
RECURSIVE Rep(_, _)
Rep(n, s) == IF n = 0 THEN <<>> ELSE s \o Rep(n-1, s)
UnEvSeq(cs, addr, i) == IF i > Len(cs) THEN <<>> ELSE UnEv(cs[i], addr \o <<i-1>>) \o UnEvSeq(cs, addr, i+1)
UnEv(nd, addr) == CASE nd.k = "g" -> << [v |-> nd.v, a |-> addr] >>
                    [] nd.k = "seq" -> UnEvSeq(nd.c, addr, 1)
                    [] nd.k = "loop" -> Rep(nd.n, UnEvSeq(nd.c[1].c, addr, 1))
\* expected visits: for each M in unrolled order, the trace index of the last P before it (0-based)
RECURSIVE VisitsOf(_, _, _)
VisitsOf(ev, i, cur) == IF i > Len(ev) THEN <<>>
                        ELSE IF ev[i].v = "P" THEN VisitsOf(ev, i+1, <<TraceIdx(ev[i].a) - 1>>)
                        ELSE IF ev[i].v = "M" THEN cur \o VisitsOf(ev, i+1, <<>>)
                        ELSE VisitsOf(ev, i+1, cur)
Expected == VisitsOf(UnEvSeq(Prog.c, <<>>, 1), 1, <<>>)

\* ---------- WalkAlg: transcription of TraceVisitor ----------
VARIABLES index, objective, address, stack, visits
vars == <<index, objective, address, stack, visits>>
None == <<-1>>
IsPrefixOf(a, o) == Len(a) <= Len(o) /\ SubSeq(o, 1, Len(a)) = a

BlockFrame(nd, wait) == [t |-> "block", nd |-> nd, wait |-> wait, i |-> 0, sv |-> <<>>]
LoopFrame(nd, sv) == [t |-> "loop", nd |-> nd, wait |-> FALSE, i |-> 0, sv |-> sv]

Init == /\ index = 0 /\ address = <<>> /\ visits = <<>>
        /\ IF Len(Traces) = 0 THEN objective = None /\ stack = <<>>
           ELSE objective = Traces[1] /\ stack = << BlockFrame(Prog, FALSE) >>

Top == stack[Len(stack)]
Pop == SubSeq(stack, 1, Len(stack) - 1)
SetTop(f) == [stack EXCEPT ![Len(stack)] = f]

BlockStep ==
  /\ stack # <<>> /\ Top.t = "block"
  /\ IF Top.wait
     THEN \* child returned: address.pop(), go round the while loop
          /\ address' = SubSeq(address, 1, Len(address) - 1)
          /\ stack' = SetTop([Top EXCEPT !.wait = FALSE])
          /\ UNCHANGED <<index, objective, visits>>
     ELSE IF objective = None \/ ~IsPrefixOf(address, objective)
     THEN /\ stack' = Pop /\ UNCHANGED <<index, objective, address, visits>>
     ELSE LET n == objective[Len(address) + 1]
              nxt == Top.nd.c[n + 1]
          IN IF Len(address) + 1 = Len(objective)
             THEN /\ visits' = Append(visits, index)
                  /\ index' = index + 1
                  /\ IF index + 1 = Len(Traces)
                     THEN objective' = None /\ stack' = Pop
                     ELSE objective' = Traces[index + 2] /\ stack' = stack
                  /\ UNCHANGED address
             ELSE /\ address' = Append(address, n)
                  /\ stack' = Append(SetTop([Top EXCEPT !.wait = TRUE]),
                                     IF nxt.k = "loop" THEN LoopFrame(nxt, <<index, address', objective>>)
                                     ELSE BlockFrame(nxt, FALSE))
                  /\ UNCHANGED <<index, objective, visits>>

LoopStep ==
  /\ stack # <<>> /\ Top.t = "loop"
  /\ IF Top.i < Top.nd.n
     THEN /\ index' = Top.sv[1] /\ address' = Top.sv[2] /\ objective' = Top.sv[3]
          /\ stack' = Append(SetTop([Top EXCEPT !.i = @ + 1]), BlockFrame(Top.nd.c[1], FALSE))
          /\ UNCHANGED visits
     ELSE IF Fixed /\ Top.nd.n < 1
     THEN \* the repair: skip every trace that starts inside the loop that did not iterate
          LET js == { j \in index..Len(Traces) : j = Len(Traces) \/ ~IsPrefixOf(Top.sv[2], Traces[j + 1]) }
              j0 == CHOOSE j \in js : \A x \in js : j <= x
          IN /\ index' = (IF objective # None /\ IsPrefixOf(Top.sv[2], objective) THEN j0 ELSE index)
             /\ objective' = (IF objective # None /\ IsPrefixOf(Top.sv[2], objective)
                              THEN (IF j0 = Len(Traces) THEN None ELSE Traces[j0 + 1]) ELSE objective)
             /\ stack' = Pop /\ UNCHANGED <<address, visits>>
     ELSE /\ stack' = Pop /\ UNCHANGED <<index, objective, address, visits>>

Next == BlockStep \/ LoopStep
Spec == Init /\ [][Next]_vars /\ WF_vars(Next)

Done == stack = <<>>
Termination == <>Done
Safety == Done => visits = Expected
PrefixOK == IsPrefix(visits, Expected)
====
