----------------------------- MODULE Conform_Process -----------------------------
(* Validation of recorded process histories (C16): case = [util (importlib.util pre-imported),
   texts: Seq(pool index), outs: Seq([cls, pos, digest]), first: Seq([cls, pos, digest]) (outcome of the same
   text as the FIRST call of a fresh process)]                                                    *)
EXTENDS Naturals, Sequences, FiniteSets, TLC, Json, IOUtils
Cases == JsonDeserialize(IOEnv.CASES)
PoolCls == <<"ok", "parse_error", "parse_error", "parse_error", "jaqal_error", "parse_error", "import_error", "ok",
             "ok", "ok", "ok", "jaqal_error">>
F(name, failed) == IF failed THEN {name} ELSE {}
PClauses(c) ==
  F("completed", Len(c.outs) # Len(c.texts))
  \cup (IF Len(c.outs) # Len(c.texts) THEN {} ELSE
        F("outcome_class", \E j \in DOMAIN c.texts : c.outs[j].cls # PoolCls[c.texts[j]])
        \cup F("history_independent", \E j \in DOMAIN c.texts : c.outs[j] # c.first[j])
        \cup F("error_type", \E j \in DOMAIN c.texts : c.outs[j].cls \notin {"ok", "parse_error", "jaqal_error", "import_error"})
        \cup F("position", \E j \in DOMAIN c.texts : c.outs[j].cls = "parse_error" /\ c.outs[j].pos = "none"))
VARIABLE i
Init == i = 1
Case == /\ i <= Len(Cases)
        /\ i' = i + 1
        /\ LET cl == PClauses(Cases[i]) IN cl = {} \/ PrintT(<<"V", Cases[i].id, cl, {}>>)
Done == i = Len(Cases) + 1 /\ i' = i + 1 /\ PrintT(<<"DONE", i - 1>>)
Next == Case \/ Done
Spec == Init /\ [][Next]_i
=============================================================================
