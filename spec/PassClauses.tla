------------------------------- MODULE PassClauses -------------------------------
(***************************************************************************)
(* Clauses for one recorded call of a transformation pass (C04, C05, C06,   *)
(* C09, C10): c = [site, inp: Prog, ovr, out: [cls, prog], prep, meas].     *)
(* A clause name is in the result iff that clause FAILS.                    *)
(***************************************************************************)
EXTENDS JaqalSem

F(name, failed) == IF failed THEN {name} ELSE {}

\* ---------- helpers
Ok(c) == c.out.cls = "ok"
RegTabOf(prog, ovr) == RegTab(prog, Env(prog, ovr))
ValidRegs(prog, ovr) == LET t == RegTabOf(prog, ovr) IN \A r \in DOMAIN t : t[r].ok
ValidIn(prog, ovr) == ValidRegs(prog, ovr) /\ ~HasBad(Meaning(prog, ovr)) /\ TypeOK(prog, ovr)
                      /\ ~SubNestBad(Meaning(prog, ovr), FALSE)
                      \* a reference in the body of a macro that is never called is checked all the same, as far as it does
                      \* not depend on the macro's parameters
                      /\ MacroBodiesOK(prog, ovr)

\* An alias without elements (map r q[1:1], or a descending slice whose stop lies beyond its start) denotes no qubit:
\* whether declaring it is an error is left open (the implementation rejects some of them by looking at the stop
\* value alone), so acceptance is demanded only of programs whose aliases all have elements.
NoEmptyAlias(prog, ovr) == LET t == RegTabOf(prog, ovr) IN \A r \in DOMAIN t : t[r].ok => Len(t[r].elems) >= 1

MacroMeaning(prog, ovr, j) ==
  LET env == Env(prog, ovr) IN
  [v |-> prog.macros[j].v, params |-> prog.macros[j].params,
   m |-> M(prog.macros[j].body, prog, env, RegTab(prog, env), EmptyFn, FALSE, 0)]
MacroMeanings(prog, ovr) == { MacroMeaning(prog, ovr, j) : j \in DOMAIN prog.macros }

\* subcircuit expansion on the meaning normal form: U(n, S(kids)) becomes S(prepare, kids, measure)
\* spliced into an enclosing S (the Seq-in-Seq identification, DESIGN 5/C09)
GP(name) == [k |-> "G", v |-> name, args |-> <<>>]
RECURSIVE ExpandU(_, _, _)
ExpandU(m, p, q) ==
  CASE m.k = "G" -> m
    [] m.k = "U" -> LET b == ExpandU(m.c[1], p, q) IN
                    [k |-> b.k, c |-> <<GP(p)>> \o b.c \o <<GP(q)>>]
    [] m.k = "L" -> [m EXCEPT !.c = <<ExpandU(m.c[1], p, q)>>]
    [] m.k \in {"S", "P"} -> [m EXCEPT !.c = Splice(m.k, [j \in DOMAIN m.c |-> ExpandU(m.c[j], p, q)])]
    [] OTHER -> m

HasSub(prog) == \E j \in DOMAIN AllStmts(prog) : IsSubBlk(AllStmts(prog)[j])
HasSubInMacro(prog) == \E j \in DOMAIN MacroStmts(prog) : IsSubBlk(MacroStmts(prog)[j])
HasSubInBody(prog) == \E j \in DOMAIN BodyStmts(prog) : IsSubBlk(BodyStmts(prog)[j])
HasMacroCall(prog, stmts) == \E j \in DOMAIN stmts : IsMacroCallIn(prog, stmts[j]) \/ (stmts[j].k = "gate" /\ stmts[j].cls = "macro")
AnyLetRef(prog) ==
  \/ \E j \in DOMAIN AllStmts(prog) : StmtRefsLet(AllStmts(prog)[j])
  \/ \E j \in DOMAIN prog.regs : RegRefsLet(prog.regs[j])
AnyAliasRef(prog) ==
  LET fn == FundNames(prog)
      ss == AllStmts(prog)
  IN \E j \in DOMAIN ss : ss[j].k = "gate" /\ \E a \in DOMAIN ss[j].args : ArgRefsAlias(ss[j].args[a], EmptyFn, fn)
LetsOf(prog) == SeqToSet(prog.lets)
RegsOf(prog) == SeqToSet(prog.regs)
MacroSigs(prog) == { <<prog.macros[j].v, prog.macros[j].params>> : j \in DOMAIN prog.macros }

\* blocks of the same kind directly nested (not legal Jaqal text); loop bodies and macro bodies are
\* blocks by construction and are not "nested" in this sense
RECURSIVE IllegalNest(_, _)
IllegalNest(s, ctx) ==
  CASE s.k = "gate" -> FALSE
    [] s.k = "loop" -> ctx = "par" \/ \E j \in DOMAIN s.body.body : IllegalNest(s.body.body[j], IF s.body.par THEN "par" ELSE "seq")
    [] s.k = "blk" ->
         LET kind == IF s.par THEN "par" ELSE "seq" IN
         \/ (ctx = kind /\ ~s.sub)
         \/ (s.sub /\ ctx = "par")
         \/ \E j \in DOMAIN s.body : IllegalNest(s.body[j], kind)
    [] OTHER -> TRUE
LegalNesting(prog) ==
  /\ \A j \in DOMAIN prog.body : ~IllegalNest(prog.body[j], "top")
  /\ \A j \in DOMAIN prog.macros : \A x \in DOMAIN prog.macros[j].body.body :
        ~IllegalNest(prog.macros[j].body.body[x], IF prog.macros[j].body.par THEN "par" ELSE "seq")

\* ---------- clauses per site
\* fill_in_map is applicable unless a macro body indexes an alias with a parameter, indexes a register parameter, or a
\* statement passes a whole alias as an argument: such a reference denotes no single fundamental qubit before the
\* macro is expanded (R5: the statement is silent there; C10 speaks of "any order in which each is applicable")
MapApplicable(prog) ==
  LET fn == FundNames(prog)
      ss == MacroStmts(prog)
      all == AllStmts(prog)
  IN /\ ~\E j \in DOMAIN ss : ss[j].k = "gate" /\ \E a \in DOMAIN ss[j].args :
          LET x == ss[j].args[a] IN
          x.k = "qubit" /\ ((x.base.k = "reg" /\ x.base.v \notin fn /\ x.idx.k = "param")
                            \* a qubit of a register PARAMETER: which register it is, is known only at the call
                            \/ x.base.k = "param")
     \* a whole alias passed on as a register argument is no single qubit either ("full alias found in statements")
     /\ ~\E j \in DOMAIN all : all[j].k = "gate" /\ \E a \in DOMAIN all[j].args :
          all[j].args[a].k = "reg" /\ all[j].args[a].v \notin fn

Common(c) ==
  \* (the parser reports violations it can see in the text - a register of size 0, say - as parse errors)
  F("error_type", c.out.cls \notin ({"ok", "jaqal_error"} \cup (IF c.site = "parse" THEN {"parse_error"} ELSE {})))
  \cup F("accepted", ValidIn(c.inp, c.ovr) /\ NoEmptyAlias(c.inp, c.ovr) /\ c.out.cls # "ok" /\ (c.site \in {"fill_in_map", "fill_in_let_map"} => MapApplicable(c.inp)))

ExpandMacros(c, preserve) ==
  LET i == c.inp  o == c.out.prog
      mm == MeaningModSub(o, <<>>) = MeaningModSub(i, <<>>)
  IN Common(c) \cup
     IF ~Ok(c) THEN {}
     ELSE F("no_macro_calls", HasMacroCall(i, BodyStmts(o)))
          \cup F("refs_follow_decls", ObjRefsFollowDecls(i) /\ ~ObjRefsFollowDecls(o))
          \* the meaning clauses are asserted for valid programs only (an out-of-range reference has no meaning to
          \* preserve; that such programs are rejected in the end is C14's invalid_rejected)
          \cup F("meaning_mod_sub", ValidIn(i, <<>>) /\ ~mm)
          \cup F("sub_annotations", ValidIn(i, <<>>) /\ mm /\ Meaning(o, <<>>) # Meaning(i, <<>>))
          \cup F("header_carried", LetsOf(o) # LetsOf(i) \/ RegsOf(o) # RegsOf(i) \/ NativeSet(o) # NativeSet(i))
          \cup F("imports_carried", SeqToSet(o.imports) # SeqToSet(i.imports))
          \cup F("definitions", IF preserve THEN MacroSet(o) # MacroSet(i) ELSE o.macros # <<>>)
          \cup F("legal_nesting", LegalNesting(i) /\ ~LegalNesting(o))

FillInLet(c) ==
  LET i == c.inp  o == c.out.prog
      mm == MeaningModSub(o, <<>>) = MeaningModSub(i, c.ovr)
  IN Common(c)
     \cup F("invalid_rejected", ~ValidIn(i, c.ovr) /\ Ok(c))
     \cup IF ~Ok(c) THEN {}
     ELSE F("no_let_refs", AnyLetRef(o))
          \cup F("refs_follow_decls", ~ObjRefsFollowDecls(o))
          \* the meaning clauses are asserted for valid (program, override) pairs only; what must happen
          \* to the others is C14's invalid_rejected
          \cup F("meaning_mod_sub", ValidIn(i, c.ovr) /\ ~mm)
          \cup F("sub_annotations", ValidIn(i, c.ovr) /\ mm /\ Meaning(o, <<>>) # Meaning(i, c.ovr))
          \cup F("registers", ValidIn(i, c.ovr) /\ RegTabOf(o, <<>>) # RegTabOf(i, c.ovr))
          \cup F("macros_kept", ValidIn(i, c.ovr) /\ MacroMeanings(o, <<>>) # MacroMeanings(i, c.ovr))
          \cup F("lets_kept", LetsOf(o) # LetsOf(i))
          \cup F("natives_kept", NativeSet(o) # NativeSet(i))
          \cup F("imports_carried", SeqToSet(o.imports) # SeqToSet(i.imports))
          \cup F("legal_nesting", LegalNesting(i) /\ ~LegalNesting(o))

FillInMap(c) ==
  LET i == c.inp  o == c.out.prog
      mm == MeaningModSub(o, <<>>) = MeaningModSub(i, <<>>)
  IN Common(c) \cup
     IF ~Ok(c) THEN {}
     ELSE F("no_alias_refs", AnyAliasRef(o))
          \cup F("refs_follow_decls", ObjRefsFollowDecls(i) /\ ~ObjRefsFollowDecls(o))
          \* (meaning clauses: valid inputs only, as for the other passes)
          \cup F("meaning_mod_sub", ValidIn(i, <<>>) /\ ~mm)
          \cup F("sub_annotations", ValidIn(i, <<>>) /\ mm /\ Meaning(o, <<>>) # Meaning(i, <<>>))
          \cup F("header_carried", LetsOf(o) # LetsOf(i) \/ RegsOf(o) # RegsOf(i) \/ NativeSet(o) # NativeSet(i))
          \cup F("macros_kept", ValidIn(i, <<>>) /\ MacroMeanings(o, <<>>) # MacroMeanings(i, <<>>))
          \cup F("imports_carried", SeqToSet(o.imports) # SeqToSet(i.imports))
          \cup F("legal_nesting", LegalNesting(i) /\ ~LegalNesting(o))

\* fill_in_map applied to the result of fill_in_let(override): every reference is a fundamental qubit and the meaning is
\* the meaning of the input under the override (C06 with let-valued bounds that are overridden)
FillInLetMap(c) ==
  LET i == c.inp  o == c.out.prog
      v == ValidIn(i, c.ovr) /\ MapApplicable(i)
  IN Common(c)
     \cup IF ~Ok(c) THEN {}
     ELSE F("no_alias_refs", AnyAliasRef(o))
          \cup F("no_let_refs", AnyLetRef(o))
          \cup F("refs_follow_decls", ~ObjRefsFollowDecls(o))
          \cup F("meaning_mod_sub", v /\ MeaningModSub(o, <<>>) # MeaningModSub(i, c.ovr))
          \cup F("macros_kept", v /\ MacroMeanings(o, <<>>) # MacroMeanings(i, c.ovr))

ExpandSub(c) ==
  LET i == c.inp  o == c.out.prog IN
  Common(c) \cup
     IF ~Ok(c) THEN {}
     ELSE F("no_sub_left", HasSub(o))
          \cup F("brackets", Meaning([o EXCEPT !.macros = <<>>], <<>>) #
                             ExpandU(Meaning([i EXCEPT !.macros = <<>>], <<>>), c.prep, c.meas))
          \cup F("header_carried", LetsOf(o) # LetsOf(i) \/ RegsOf(o) # RegsOf(i) \/ NativeSet(o) # NativeSet(i))
          \* (signatures, and the ORDER of the definitions: a macro may call the macros defined before it only)
          \cup F("macros_kept", MacroSigs(o) # MacroSigs(i) \/ [j \in DOMAIN o.macros |-> o.macros[j].v] # [j \in DOMAIN i.macros |-> i.macros[j].v])
          \cup F("macro_brackets", MacroSigs(o) = MacroSigs(i) /\
                  \E j \in DOMAIN i.macros :
                     LET env == Env(i, <<>>)
                         pi == [i EXCEPT !.macros = <<>>]
                         po == [o EXCEPT !.macros = <<>>]
                         k == CHOOSE x \in DOMAIN o.macros : o.macros[x].v = i.macros[j].v
                     IN M(o.macros[k].body, po, env, RegTab(po, env), EmptyFn, FALSE, 0) #
                        ExpandU(M(i.macros[j].body, pi, env, RegTab(pi, env), EmptyFn, FALSE, 0), c.prep, c.meas))
          \cup F("imports_carried", SeqToSet(o.imports) # SeqToSet(i.imports))

\* the parser itself: inp is the MODEL program (built by the AstEnum machine), out the parsed circuit
Parse(c) ==
  LET i == c.inp  o == c.out.prog IN
  Common(c) \cup
     IF ~Ok(c) THEN {}
     ELSE F("denotes", Meaning(o, <<>>) # Meaning(i, <<>>))
          \* (a declaration whose check the parser defers - a constant-bounded slice reaching outside its source - has
          \* no element table to follow; such programs are rejected by let substitution: C14 known_by_let_stage)
          \cup F("refs_follow_decls", ValidRegs(i, <<>>) /\ ~ObjRefsFollowDecls(o))
          \cup F("registers", RegTabOf(o, <<>>) # RegTabOf(i, <<>>))
          \cup F("lets", Env(o, <<>>) # Env(i, <<>>))
          \cup F("macros", MacroMeanings(o, <<>>) # MacroMeanings(i, <<>>))
          \cup F("imports", SeqToSet(o.imports) # SeqToSet(i.imports))
          \cup F("natives", NativeSet(o) # NativeSet(i))

\* unit-timing normalisation (C19).  Subcircuit annotations: the schedule is computed with the blocks'
\* annotations erased on both sides; the annotations themselves are the clause sub_annotations.
RECURSIVE EraseSubStmt(_)
EraseSubStmt(s) ==
  CASE s.k = "blk" -> [s EXCEPT !.sub = FALSE, !.iters = NumI(1), !.body = [j \in DOMAIN s.body |-> EraseSubStmt(s.body[j])]]
    [] s.k = "loop" -> [s EXCEPT !.body = EraseSubStmt(s.body)]
    [] OTHER -> s
EraseSubProg(p) == [p EXCEPT !.body = [j \in DOMAIN p.body |-> EraseSubStmt(p.body[j])]]
UnitTiming(c) ==
  LET i == c.inp  o == c.out.prog
      lip == \E j \in DOMAIN i.body : LoopInPar(i.body[j], FALSE)
  IN F("error_type", c.out.cls \notin {"ok", "jaqal_error"})
     \cup F("loop_in_par_rejected", lip /\ c.out.cls # "jaqal_error")
     \cup F("accepted", ~lip /\ c.out.cls # "ok")
     \cup IF ~Ok(c) \/ lip THEN {}
        ELSE F("flat", ~FlatBody(o))
             \cup F("schedule", Schedule(EraseSubProg(o)) # Schedule(EraseSubProg(i)))
             \* every subcircuit block survives with its count and the (relative) schedule of its own body
             \cup F("sub_annotations", SubShapeSeq(o.body) # SubShapeSeq(i.body))
             \cup F("header_carried", LetsOf(o) # LetsOf(i) \/ RegsOf(o) # RegsOf(i) \/ NativeSet(o) # NativeSet(i) \/ MacroSet(o) # MacroSet(i))
             \cup F("imports_carried", SeqToSet(o.imports) # SeqToSet(i.imports))

Clauses(c) ==
  CASE c.site = "parse" -> Parse(c)
    [] c.site \in {"unit_timing", "unit_timing_again"} -> UnitTiming(c)
    [] c.site = "expand_macros" -> ExpandMacros(c, FALSE)
    [] c.site = "expand_macros_preserve" -> ExpandMacros(c, TRUE)
    [] c.site = "fill_in_let" -> FillInLet(c)
    [] c.site = "fill_in_map" -> FillInMap(c)
    [] c.site = "fill_in_let_map" -> FillInLetMap(c)
    \* (_defs: with caller-supplied prepare / measure definitions, c.prep / c.meas name them; _again: the plain call made
    \*  after a call with other definitions on the same circuit object - judged exactly like a first call)
    [] c.site \in {"expand_subcircuits", "expand_subcircuits_defs", "expand_subcircuits_again"} -> ExpandSub(c)
    [] OTHER -> {"unknown_site"}

Triggers(c) ==
  F("HasSubcircuitBlock", HasSub(c.inp))
  \cup F("SubcircuitInMacro", HasSubInMacro(c.inp))
  \cup F("HasImports", c.inp.imports # <<>>)
  \cup F("HasOverride", c.ovr # <<>>)
  \cup F("HasMacros", c.inp.macros # <<>>)

=============================================================================
