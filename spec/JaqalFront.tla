-------------------------------- MODULE JaqalFront --------------------------------
(***************************************************************************)
(* The three front ends (C17).  The builder machine AstEnum is the common   *)
(* action alphabet: its behaviours are rendered as Jaqal text, as           *)
(* S-expressions for the builder, and as Q-syntax calls (context managers = *)
(* OpenBlock / CloseBlock on the Q frame stack).  This module states what   *)
(* Q-syntax adds: the implicit prepare/measure wrapping and fresh names.    *)
(***************************************************************************)
EXTENDS PassClauses

\* does a statement begin with a prepare (or is it a subcircuit)?
RECURSIVE StartsWithPrepare(_)
StartsWithPrepare(s) ==
  CASE s.k = "gate" -> s.v = "prepare_all"
    [] s.k = "blk" -> s.sub \/ (s.body # <<>> /\ StartsWithPrepare(s.body[1]))
    [] s.k = "loop" -> s.body.body # <<>> /\ StartsWithPrepare(s.body.body[1])
    [] OTHER -> FALSE
QWrapNeeded(body) == body = <<>> \/ ~StartsWithPrepare(body[1])
GateStmt(name, cls) == [k |-> "gate", v |-> name, cls |-> cls, args |-> <<>>]
QWrap(body, cls) == IF QWrapNeeded(body) THEN <<GateStmt("prepare_all", cls)>> \o body \o <<GateStmt("measure_all", cls)>> ELSE body

\* renaming of declared names (for anonymous lets / registers): f is a function old name -> new name
RenIx(x, f) == IF x.k \in {"let"} /\ x.v \in DOMAIN f THEN [x EXCEPT !.v = f[x.v]] ELSE x
RenArg(a, f) ==
  CASE a.k = "let" -> RenIx(a, f)
    [] a.k = "reg" -> IF a.v \in DOMAIN f THEN [a EXCEPT !.v = f[a.v]] ELSE a
    [] a.k = "qubit" -> [a EXCEPT !.base = IF a.base.k = "reg" /\ a.base.v \in DOMAIN f THEN [a.base EXCEPT !.v = f[a.base.v]] ELSE a.base,
                                  !.idx = RenIx(a.idx, f),
                                  !.res = IF a.res.ok /\ a.res.reg \in DOMAIN f THEN [a.res EXCEPT !.reg = f[a.res.reg]] ELSE a.res]
    [] OTHER -> a
RECURSIVE RenStmt(_, _)
RenStmt(s, f) ==
  CASE s.k = "gate" -> [s EXCEPT !.args = [j \in DOMAIN s.args |-> RenArg(s.args[j], f)]]
    [] s.k = "blk" -> [s EXCEPT !.iters = RenIx(s.iters, f), !.body = [j \in DOMAIN s.body |-> RenStmt(s.body[j], f)]]
    [] s.k = "loop" -> [s EXCEPT !.count = RenIx(s.count, f), !.body = RenStmt(s.body, f)]
    [] OTHER -> s
RenProg(p, f) ==
  [p EXCEPT !.lets = [j \in DOMAIN p.lets |-> [p.lets[j] EXCEPT !.v = IF @ \in DOMAIN f THEN f[@] ELSE @]],
            !.regs = [j \in DOMAIN p.regs |-> [p.regs[j] EXCEPT !.v = IF @ \in DOMAIN f THEN f[@] ELSE @,
                                                                   !.size = RenIx(@, f)]],
            !.body = [j \in DOMAIN p.body |-> RenStmt(p.body[j], f)]]
=============================================================================
