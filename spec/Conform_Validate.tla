---------------------------- MODULE Conform_Validate ----------------------------
(***************************************************************************)
(* Trace validation of the validation-comment functions (C15 views, C08     *)
(* attribution as seen by a consumer).                                      *)
(* case = [id, site, nq, lines: the text as abstract lines (JaqalValidate),*)
(*         rd: Seq([sub, value]) and pr: Seq(Seq(numerator)) of the         *)
(*         execution the text is about (sites vgen / vcheck),               *)
(*         obs: what the implementation did]                                *)
(*  site "vread":  obs = [cls, hasMeas, meas: Seq([s, v, sub]), hasProb,    *)
(*                        sprob: Seq(Seq([s, pn])), iprob: Seq(Seq([v, pn]))]*)
(*  site "vgen":   lines = the writer's output for execution (rd, pr)       *)
(*  site "vcheck": obs = [cls, validated: Seq(STRING)] of                   *)
(*                 validate_jaqal_circuit(expected read from `lines`)       *)
(***************************************************************************)
EXTENDS JaqalValidate, Json, IOUtils
Cases == JsonDeserialize(IOEnv.CASES)
F(name, failed) == IF failed THEN {name} ELSE {}

Clauses(c) ==
  LET st == VRead(c.lines)
      o == c.obs
  IN
  (IF c.site = "vread" THEN
     F("read_verdict", (st.verdict = "ok" /\ o.cls # "ok") \/ (st.verdict = "value_error" /\ o.cls # "value_error"))
     \cup (IF st.verdict = "ok" /\ o.cls = "ok" THEN
             F("read_sections", o.hasMeas # st.hasMeas \/ o.hasProb # st.hasProb)
             \cup F("read_readouts", st.hasMeas /\ o.hasMeas /\
                      o.meas # [j \in DOMAIN st.meas |-> [s |-> st.meas[j].s, v |-> st.meas[j].v, sub |-> st.meas[j].sub]])
             \cup F("read_probabilities", st.hasProb /\ o.hasProb /\
                      (o.sprob # [k \in DOMAIN st.prob |-> [e \in DOMAIN st.prob[k] |-> [s |-> st.prob[k][e].s, pn |-> st.prob[k][e].pn]]]
                       \/ o.iprob # [k \in DOMAIN st.prob |-> [e \in DOMAIN st.prob[k] |-> [v |-> st.prob[k][e].v, pn |-> st.prob[k][e].pn]]]))
           ELSE {})
   ELSE {})
  \cup
  (IF c.site = "vgen" THEN
     LET as == GenLines(c.rd, c.nq, c.pr) IN
     F("written_lines", Len(c.lines) # Len(as) \/ \E j \in DOMAIN as : j <= Len(c.lines) /\ ~LineIs(as[j], c.lines[j]))
     \cup F("written_reads_back", st.verdict # "ok" \/ Compare(st, c.rd, c.nq, c.pr) \notin {"agree", "open"})
   ELSE {})
  \cup
  (IF c.site = "vcheck" /\ st.verdict = "ok" THEN
     LET cmp == Compare(st, c.rd, c.nq, c.pr) IN
     F("agree_accepted", cmp = "agree" /\ (o.cls # "ok" \/ o.validated # Validated(st)))
     \cup F("difference_rejected", cmp = "differ" /\ o.cls # "value_error")
   ELSE {})

Info(c) == IF c.site = "vcheck" THEN Compare(VRead(c.lines), c.rd, c.nq, c.pr) ELSE VRead(c.lines).verdict

VARIABLE i
Init == i = 1
Case == /\ i <= Len(Cases)
        /\ i' = i + 1
        /\ PrintT(<<"I", Cases[i].site \o ":" \o Info(Cases[i]), 1>>)
        /\ LET cl == Clauses(Cases[i]) IN cl = {} \/ PrintT(<<"V", Cases[i].id, cl, {}>>)
Done == i = Len(Cases) + 1 /\ i' = i + 1 /\ PrintT(<<"DONE", i - 1>>)
Next == Case \/ Done
Spec == Init /\ [][Next]_i
=============================================================================
