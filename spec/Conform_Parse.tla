----------------------------- MODULE Conform_Parse -----------------------------
(* Trace validation for C02: each case is one recorded execution of the real parser on a rendered
   token string.  case = [id, toks: Seq([t, v]), offs: Seq(Nat) (character offset of every token),
   obs: [cls, tree, eof, off], obs2: [cls]]; obs comes from parse_to_sexpression, obs2 from
   parse_jaqal_string(autoload_pulses=False).  The expected outcome is recomputed here by folding
   JaqalParse!Step over the recorded tokens.                                                     *)
EXTENDS JaqalParse, Json, IOUtils, SequencesExt
Cases == JsonDeserialize(IOEnv.CASES)

TokStarts(c, from) == { c.offs[i] : i \in { j \in from..Len(c.toks) : c.toks[j].t \notin LayoutKinds } }

F(name, failed) == IF failed THEN {name} ELSE {}

Clauses(c) ==
  LET exp == Outcome(c.toks)
      o == c.obs
  IN  F("accept_iff", (o.cls = "ok") # (exp.v = "ok"))
      \cup F("error_type", ~(o.cls \in {"ok", "parse_error"} \/ (exp.v = "static" /\ o.cls = "jaqal_error")))
      \cup F("tree", o.cls = "ok" /\ exp.v = "ok" /\ o.tree # exp.tree)
      \cup F("position", exp.v = "syntax" /\ ~exp.static /\ o.cls = "parse_error" /\
                ~(IF exp.bad > Len(c.toks) THEN o.eof
                  ELSE o.eof \/ o.off \in TokStarts(c, exp.bad)))
      \* header-only parsing of a well-formed text returns exactly the header statements
      \cup F("header_only", exp.v = "ok" /\
                (c.obs3.cls # "ok" \/ c.obs3.tree # Node("circuit", "", SelectSeq(exp.tree.c, LAMBDA nd : nd.k \in HeaderKinds))))
      \cup F("string_entry_agrees",
                \/ (exp.v = "syntax" /\ c.obs2.cls # "parse_error")
                \/ (exp.v # "syntax" /\ c.obs2.cls \notin {"ok", "jaqal_error", "parse_error"})
                \/ (exp.v = "ok" /\ c.obs2.cls = "parse_error")
                \* branch statements are grammatical but experimental: the builder refuses them
                \/ (Experimental(c.toks) /\ c.obs2.cls # "jaqal_error")
                \* a program has at most one register statement
                \/ (TwoRegisters(c.toks) /\ c.obs2.cls # "jaqal_error"))

Triggers(c) ==
  LET nbc == Cardinality({ i \in 1..Len(c.toks) : c.toks[i].t = "BC" }) IN
  (IF nbc >= 2 THEN {"TwoBlockComments"} ELSE {}) \cup
  (IF Outcome(c.toks).v = "syntax" /\ Outcome(c.toks).bad > Len(c.toks) THEN {"EndsTooEarly"} ELSE {})

VARIABLE i
Init == i = 1
Case == /\ i <= Len(Cases)
        /\ i' = i + 1
        /\ LET cl == Clauses(Cases[i]) IN
             cl = {} \/ PrintT(<<"V", Cases[i].id, cl, Triggers(Cases[i]), Outcome(Cases[i].toks).v>>)
Done == i = Len(Cases) + 1 /\ i' = i + 1 /\ PrintT(<<"DONE", i - 1>>)
Next == Case \/ Done
Spec == Init /\ [][Next]_i
=============================================================================
