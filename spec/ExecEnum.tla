-------------------------------- MODULE ExecEnum --------------------------------
(* The builder machine together with the execution semantics: every complete program is emitted with
   the number of subcircuit visits the specification expects (the length of a matching hardware output
   list), and the spec-level theorems about execution are checked on every enumerated program.   *)
EXTENDS AstConfigs, JaqalExec

XTree == ExecTree(Prog, <<>>)
\* number of qubits of the (single) fundamental register
NQProg == LET t == RegTab(Prog, Env(Prog, <<>>)) IN Len(t[CHOOSE r \in FundNames(Prog) : TRUE].elems)
EmitX == Complete => PrintT(<<"PROG", ToJson([Prog EXCEPT !.natives = NatTag(@)]),
                              Len(VisitsOf(XTree).visits), DiscoverRule(XTree).accept, NQProg>>)

\* the explicit spelling of a program (reference version of expand_subcircuits on the AST): every subcircuit
\* block becomes a sequential block that begins with prepare_all and ends with measure_all
PM(name) == [k |-> "gate", v |-> name, cls |-> "?", args |-> <<>>]
\* (written in a sequential context, `prepare_all; B; measure_all` are three statements of that context: spliced)
RECURSIVE RefExpandSubStmt(_)
RECURSIVE RefExpandSubSeq(_)
RefExpandSubSeq(ss) ==
  IF ss = <<>> THEN <<>>
  ELSE LET h == Head(ss) IN
       (IF h.k = "blk" /\ h.sub
        THEN <<PM("prepare_all")>> \o RefExpandSubSeq(h.body) \o <<PM("measure_all")>>
        ELSE <<RefExpandSubStmt(h)>>) \o RefExpandSubSeq(Tail(ss))
RefExpandSubStmt(s) ==
  CASE s.k = "blk" -> [s EXCEPT !.body = RefExpandSubSeq(s.body)]
    [] s.k = "loop" -> [s EXCEPT !.body = RefExpandSubStmt(s.body)]
    [] OTHER -> s
RefExpandSub(p) == [p EXCEPT !.body = RefExpandSubSeq(p.body),
                             !.macros = [j \in DOMAIN p.macros |-> [p.macros[j] EXCEPT !.body = RefExpandSubStmt(@)]]]
\* spec-level theorem: the explicit spelling has the same execution tree
ExplicitSameTree == Complete => ExecTree(RefExpandSub(Prog), <<>>) = XTree
EmitExplicit == Complete => PrintT(<<"XPROG", ToJson([Prog EXCEPT !.natives = NatTag(@)]),
                                     ToJson([RefExpandSub(Prog) EXCEPT !.natives = NatTag(@)])>>)

\* every unrolled pair of an accepted program that contains no loop around a section boundary is a flat
\* pair; the number of visits of subcircuit k is the number of times its pair occurs unrolled
VisitsWellFormed == Complete =>
  LET v == VisitsOf(XTree) d == DiscoverRule(XTree) IN
  (d.accept /\ v.indomain) => \A x \in DOMAIN v.visits : v.visits[x] >= 0 /\ v.visits[x] < Len(d.pairs)
\* R7: the (repaired) discovery algorithm of the implementation agrees with the declarative bracket rule on
\* acceptance and, when accepted, on the subcircuits
DiscoverAlgRefinesRule == Complete =>
  LET a == DiscoverAlg(XTree, FALSE) r == DiscoverRule(XTree) IN
  a.accept = r.accept /\ (a.accept => a.pairs = r.pairs)
\* the pinned algorithm over-rejects exactly when a trace is open at the entry of a repeating loop that closes only
\* subcircuits opened inside it (used by ./check selftest: TLC must report this invariant violated)
PinnedDiscoverAlgRefinesRule == Complete =>
  LET a == DiscoverAlg(XTree, TRUE) r == DiscoverRule(XTree) IN a.accept = r.accept

\* the norm of every emulated subcircuit state is preserved: sum |a|^2 = 2^k
NormPreserved == Complete =>
  LET d == DiscoverRule(XTree) IN
  d.accept => \A k \in DOMAIN d.pairs :
     LET sg == SubGates(XTree, k)
         es == Emulate(sg.gates, NQProg, Prog)
     IN ~sg.visited \/ Norm2(es.vec) = 2 ^ es.k
=============================================================================
