------------------------------ MODULE GateEnvEnum ------------------------------
(* Enumeration machine for the gate environment (C14): every (injected set, autoload, import sequence, call). *)
EXTENDS JaqalGateEnv
CONSTANT MaxImports
VARIABLES inj, auto, imps, call, phase
vars == <<inj, auto, imps, call, phase>>
Init == inj \in Injections /\ auto \in BOOLEAN /\ imps = <<>> /\ call = [v |-> "", args |-> <<>>] /\ phase = "header"
Import == phase = "header" /\ Len(imps) < MaxImports /\ \E m \in Modules : imps' = Append(imps, m) /\ UNCHANGED <<inj, auto, call, phase>>
Call == phase = "header" /\ \E c \in Calls : call' = c /\ phase' = "done" /\ UNCHANGED <<inj, auto, imps>>
Next == Import \/ Call
Spec == Init /\ [][Next]_vars

Emit == phase = "done" => PrintT(<<"GENV", ToJson([inj |-> inj, auto |-> auto, imps |-> imps, call |-> call])>>)

\* theorems about the environment machine, checked on every state
\* (1) an injected definition is never displaced;  (2) the last import that defines a non-injected name wins;
\* (3) importing the same module twice in a row changes nothing
InjectedWins == \A n \in DOMAIN InjectedGates(inj) : n \in DOMAIN GateEnv(inj, TRUE, imps) /\ GateEnv(inj, TRUE, imps)[n] = InjectedGates(inj)[n]
LastImportWins == imps # <<>> =>
                    LET mg == ModuleGates(imps[Len(imps)]) IN
                    \A n \in DOMAIN mg \ DOMAIN InjectedGates(inj) : GateEnv(inj, TRUE, imps)[n] = mg[n]
ImportIdempotent == imps # <<>> => GateEnv(inj, TRUE, Append(imps, imps[Len(imps)])) = GateEnv(inj, TRUE, imps)
=============================================================================
