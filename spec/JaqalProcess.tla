------------------------------- MODULE JaqalProcess -------------------------------
(***************************************************************************)
(* Process-level parse history (C16, DESIGN 3.5).  One interpreter process; *)
(* a sequence of calls of the parsing entry point on texts from a pool.     *)
(* The process state the implementation actually has: the one-time sly      *)
(* monkey patch, the pulse modules in sys.modules, whether importlib.util   *)
(* has been imported.  The requirement: the outcome class of a call depends *)
(* on its text only (Out), never on these variables.                        *)
(***************************************************************************)
EXTENDS Naturals, Sequences, FiniteSets, TLC, Json
CONSTANTS MaxLen
\* the pool: text index -> [cls (expected outcome class), imports (pulse modules it names), present (they exist)]
Pool == << [cls |-> "ok", imports |-> {}],                       \* 1 valid, anonymous gates
           [cls |-> "parse_error", imports |-> {}],              \* 2 syntax error in the middle
           [cls |-> "parse_error", imports |-> {}],              \* 3 input ends too early
           [cls |-> "parse_error", imports |-> {}],              \* 4 illegal character
           [cls |-> "jaqal_error", imports |-> {}],              \* 5 index of a let constant
           [cls |-> "parse_error", imports |-> {}],              \* 6 register of size 0
           [cls |-> "import_error", imports |-> {"nosuchmodule"}],   \* 7 missing pulse module
           [cls |-> "ok", imports |-> {"vpulses"}],              \* 8 present pulse module
           [cls |-> "ok", imports |-> {}],                       \* 9 integral float literal 4.0
           [cls |-> "ok", imports |-> {}],                       \* 10 the integer 4 as size, slice bound and loop count
           [cls |-> "ok", imports |-> {"vpulses"}],              \* 11 defines and calls a macro
           [cls |-> "jaqal_error", imports |-> {"vpulses"}] >>   \* 12 the same call, no such macro or gate
VARIABLES patched, mods, utilLoaded, log
vars == <<patched, mods, utilLoaded, log>>
Init == patched = FALSE /\ mods = {} /\ utilLoaded \in BOOLEAN /\ log = <<>>
Out(t) == Pool[t].cls
Parse(t) ==
  /\ Len(log) < MaxLen
  /\ log' = Append(log, [text |-> t, out |-> Out(t)])
  /\ patched' = TRUE
  /\ utilLoaded' = (utilLoaded \/ Pool[t].imports # {})
  /\ mods' = mods \cup (IF Pool[t].cls = "ok" THEN Pool[t].imports ELSE {})
Next == \E t \in DOMAIN Pool : Parse(t)
Spec == Init /\ [][Next]_vars
\* the outcome of every call is the outcome of its text, whatever happened before
HistoryIndependent == \A j \in DOMAIN log : log[j].out = Out(log[j].text)
Emit == PrintT(<<"PHIST", ToJson([util |-> utilLoaded, texts |-> [j \in DOMAIN log |-> log[j].text]])>>)
=============================================================================
