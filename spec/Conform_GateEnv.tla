---------------------------- MODULE Conform_GateEnv ----------------------------
(* Trace validation of the gate environment (C14): case = [id, inj, auto, imps, call,
   obs: [cls], table: Seq([v, kinds]) (native gate table of the parsed circuit, when accepted, sorted by name),
   def_kinds (signature of the definition the parsed gate statement refers to), def_known]          *)
EXTENDS JaqalGateEnv, IOUtils
Cases == JsonDeserialize(IOEnv.CASES)
F(name, failed) == IF failed THEN {name} ELSE {}

GClauses(c) ==
  LET env == GateEnv(c.inj, c.auto, c.imps)
      acc == CallAccepted(c.inj, c.auto, c.imps, c.call)
      ok == c.obs.cls = "ok"
  IN F("accept_iff", ok # acc)
     \cup F("error_type", c.obs.cls \notin {"ok", "jaqal_error"})
     \* the circuit's native gate table is the environment (names and signatures)
     \cup F("native_table", ok /\ ( { c.table[j].v : j \in DOMAIN c.table } # DOMAIN env
                                    \/ \E j \in DOMAIN c.table : c.table[j].v \in DOMAIN env /\ c.table[j].kinds # env[c.table[j].v] ))
     \* the statement refers to the definition in effect - never to a displaced one of the same name
     \cup F("definition_in_effect", ok /\ InForce(c.inj, c.auto) /\ acc /\ (~c.def_known \/ c.def_kinds # env[c.call.v]))
     \cup F("anonymous_when_no_set", ok /\ ~InForce(c.inj, c.auto) /\ c.def_known)

VARIABLE i
Init == i = 1
Case == /\ i <= Len(Cases)
        /\ i' = i + 1
        /\ LET cl == GClauses(Cases[i]) IN cl = {} \/ PrintT(<<"V", Cases[i].id, cl, {}>>)
Done == i = Len(Cases) + 1 /\ i' = i + 1 /\ PrintT(<<"DONE", i - 1>>)
Next == Case \/ Done
Spec == Init /\ [][Next]_i
=============================================================================
