------------------------------ MODULE GateCallEnum ------------------------------
(* Enumeration machine for C18: a signature is built parameter by parameter, then an argument list
   argument by argument (up to MaxExtra arguments too many, those drawn from ArgClasses).        *)
EXTENDS JaqalGateDef
CONSTANTS MaxParams, MaxExtra, ArgClasses
VARIABLES sig, args, phase
Init == sig = <<>> /\ args = <<>> /\ phase = "sig"
AddParam == phase = "sig" /\ Len(sig) < MaxParams /\ \E k \in Kinds : sig' = Append(sig, k) /\ UNCHANGED <<args, phase>>
StartArgs == phase = "sig" /\ phase' = "args" /\ UNCHANGED <<sig, args>>
AddArg == phase = "args" /\ Len(args) < Len(sig) + MaxExtra /\
          \E v \in (IF Len(args) < Len(sig) THEN ValueClasses ELSE ArgClasses) : args' = Append(args, v) /\ UNCHANGED <<sig, phase>>
Next == AddParam \/ StartArgs \/ AddArg
Spec == Init /\ [][Next]_<<sig, args, phase>>
Emit == phase = "args" => PrintT(<<"CALL", ToJson([sig |-> sig, args |-> args])>>)
\* an untyped signature accepts every argument list of the right length; arity alone can reject
UntypedAcceptsAll == (phase = "args" /\ (\A j \in DOMAIN sig : sig[j] = "none") /\ Len(args) = Len(sig)) => CallOK(sig, args)
=============================================================================
