------------------------------- MODULE Conform_Lib -------------------------------
(***************************************************************************)
(* Trace validation of library-call histories (C10, C11).                   *)
(* kind "chain"  : [start: Prog, ovr, calls: Seq([site, out, eq_prev,       *)
(*                  reparse: [cls, prog]])] - each call applied to the      *)
(*                  previous result (JaqalLib with Chain = TRUE)            *)
(* kind "commute": [ends: Seq(Prog)] - end results of all orders of one set *)
(*                  of passes on one program that ran without error         *)
(* kind "flags"  : [a, b: [cls, prog], eq] - parser flag vs explicit pass   *)
(* kind "shared" : [start: Prog, calls: Seq([op, snap_eq, snap_same_repr,   *)
(*                  snap_same_graph, same_as_fresh])] - every call applied  *)
(*                  to one shared                                            *)
(*                  object (Chain = FALSE)                                  *)
(***************************************************************************)
EXTENDS PassClauses, Json, IOUtils
Cases == JsonDeserialize(IOEnv.CASES)

Tag(set, suffix) == { x \o suffix : x \in set }

RECURSIVE ChainFrom(_, _, _, _)
ChainFrom(c, j, cur, legalSoFar) ==
  IF j > Len(c.calls) THEN {}
  ELSE LET call == c.calls[j]
           step == [site |-> call.site, inp |-> cur, out |-> call.out, prep |-> "prepare_all", meas |-> "measure_all",
                    ovr |-> IF call.site = "fill_in_let" THEN c.ovr ELSE <<>>]
           cl == Clauses(step)
           ok == call.out.cls = "ok"
           idem == IF j > 1 /\ ok /\ c.calls[j - 1].site = call.site /\ c.calls[j - 1].out.cls = "ok"
                   THEN F("idempotent", call.out.prog # c.calls[j - 1].out.prog \/ ~call.eq_prev) ELSE {}
           legal == IF ok /\ legalSoFar
                    THEN F("legal_nesting", ~LegalNesting(call.out.prog))
                         \cup F("legal_reparse", LegalNesting(call.out.prog) /\
                                 (call.reparse.cls # "ok" \/
                                  Meaning(call.reparse.prog, <<>>) # Meaning(call.out.prog, <<>>)))
                    ELSE {}
       IN Tag(cl \ {"legal_nesting"}, "@" \o call.site) \cup idem \cup legal
          \cup (IF ok THEN ChainFrom(c, j + 1, call.out.prog, legalSoFar /\ LegalNesting(call.out.prog)) ELSE {})

\* kind "tree": all histories of one (program, override) as a prefix tree; node j records the last call of
\* its history, applied to the result of node `parent` (0 = the parsed program).  One evaluation per call.
NodeClauses(c, j) ==
  LET nd == c.nodes[j]
      cur == IF nd.parent = 0 THEN c.start ELSE c.nodes[nd.parent].out.prog
      step == [site |-> nd.site, inp |-> cur, out |-> nd.out, prep |-> "prepare_all", meas |-> "measure_all",
               ovr |-> IF nd.site = "fill_in_let" THEN c.ovr ELSE <<>>]
      cl == Clauses(step)
      ok == nd.out.cls = "ok"
      idem == IF nd.parent > 0 /\ ok /\ c.nodes[nd.parent].site = nd.site
              THEN F("idempotent", nd.out.prog # c.nodes[nd.parent].out.prog \/ ~nd.eq_prev) ELSE {}
      \* (a native gate set without prepare_all / measure_all cannot express an expanded subcircuit: unasserted)
      legalIn == LegalNesting(cur) /\ ValidIn(c.start, c.ovr) /\ ValidIn(c.start, <<>>)
                 /\ (c.start.natives = <<>> \/ {"prepare_all", "measure_all"} \subseteq NativeNames(c.start))
      legal == IF ok /\ legalIn
               THEN F("legal_nesting", ~LegalNesting(nd.out.prog))
                    \* Meaning is computed from declarations: the in-memory circuit means the same only if every qubit
                    \* object still resolves the way the circuit's own declarations say
                    \cup F("legal_refs", ~ObjRefsFollowDecls(nd.out.prog))
                    \cup F("legal_reparse", LegalNesting(nd.out.prog) /\
                            (nd.reparse.cls # "ok" \/ Meaning(nd.reparse.prog, <<>>) # Meaning(nd.out.prog, <<>>)))
               ELSE {}
  IN Tag(cl \ {"legal_nesting"}, "@" \o nd.site) \cup idem \cup legal
TreeClauses(c) == UNION { NodeClauses(c, j) : j \in DOMAIN c.nodes }

Commute(c) ==
  F("commute", \E a, b \in DOMAIN c.ends : Meaning(c.ends[a], <<>>) # Meaning(c.ends[b], <<>>))

Flags(c) ==
  F("parser_flags", c.a.cls # c.b.cls \/ (c.a.cls = "ok" /\ (c.a.prog # c.b.prog \/ ~c.eq)))

RECURSIVE SharedFrom(_, _)
SharedFrom(c, j) ==
  IF j > Len(c.calls) THEN {}
  ELSE LET call == c.calls[j] IN
       F("input_unchanged", ~call.snap_eq \/ ~call.snap_same_repr \/ call.snap # c.start)
       \* everything reachable from the shared object (attribute names and values of every object, generic traversal)
       \cup F("input_graph_unchanged", ~call.snap_same_graph)
       \cup F("same_as_fresh", ~call.same_as_fresh)
       \cup SharedFrom(c, j + 1)

LibClauses(c) ==
  CASE c.kind = "chain" -> ChainFrom(c, 1, c.start, LegalNesting(c.start))
    [] c.kind = "tree" -> TreeClauses(c)
    [] c.kind = "commute" -> Commute(c)
    [] c.kind = "flags" -> Flags(c)
    [] c.kind = "shared" -> SharedFrom(c, 1)
    [] OTHER -> {"unknown_kind"}

LibTriggers(c) ==
  IF c.kind \in {"chain", "tree"}
  THEN F("SubInsideSequentialContext",
         (\E j \in DOMAIN c.start.macros : ~c.start.macros[j].body.par /\
              \E x \in DOMAIN c.start.macros[j].body.body : IsSubBlk(c.start.macros[j].body.body[x])) \/
         \E j \in DOMAIN AllStmts(c.start) :
            LET s == AllStmts(c.start)[j] IN
            (s.k = "blk" /\ ~s.par /\ ~s.sub /\ \E x \in DOMAIN s.body : IsSubBlk(s.body[x]))
            \/ (s.k = "loop" /\ ~s.body.sub /\ \E x \in DOMAIN s.body.body : IsSubBlk(s.body.body[x])))
       \cup F("HasOverride", c.ovr # <<>>)
  ELSE {}

VARIABLE i
Init == i = 1
Case == /\ i <= Len(Cases)
        /\ i' = i + 1
        /\ LET cl == LibClauses(Cases[i]) IN
             cl = {} \/ PrintT(<<"V", Cases[i].id, cl, LibTriggers(Cases[i])>>)
Done == i = Len(Cases) + 1 /\ i' = i + 1 /\ PrintT(<<"DONE", i - 1>>)
Next == Case \/ Done
Spec == Init /\ [][Next]_i
=============================================================================
