-------------------------------- MODULE EmuMachine --------------------------------
(***************************************************************************)
(* The emulator as a state machine (DESIGN 3.4, R6): the gates of one       *)
(* subcircuit form a partial order - sequential inside a branch, unordered  *)
(* across the branches of a parallel block.  Action Apply takes ANY minimal *)
(* pending gate.  TLC explores every interleaving and checks                *)
(*   Confluent   every complete interleaving ends in the state the textual  *)
(*               order gives (what the implementation computes)             *)
(*   NormInv     sum |amplitude|^2 = 2^k in every reachable state           *)
(* which is the spec-level half of C03's "parallel branches in any          *)
(* interleaving" and of C13's order independence.                           *)
(***************************************************************************)
EXTENDS JaqalExec
CONSTANTS Which
VARIABLES rest, st

GQ(name, qs, cargs) == [k |-> "G", v |-> name,
                        args |-> [j \in 1..(Len(qs) + Len(cargs)) |->
                                    IF j <= Len(qs) THEN Q("q", qs[j]) ELSE [k |-> "num", cv |-> ToString(cargs[j - Len(qs)]), n |-> cargs[j - Len(qs)], i |-> TRUE]]]
SS(c) == [k |-> "S", c |-> c]
PP(c) == [k |-> "P", c |-> c]
LL(n, b) == [k |-> "L", cnt |-> [k |-> "num", cv |-> ToString(n), n |-> n, i |-> TRUE], c |-> <<b>>]
NQubits == 3
TheProg == [natives |-> ExactGates]
Trees == <<
  PP(<< GQ("H", <<0>>, <<>>), SS(<< GQ("X", <<1>>, <<>>), GQ("H", <<1>>, <<>>) >>), GQ("S", <<2>>, <<>>) >>),
  SS(<< GQ("H", <<0>>, <<>>), PP(<< GQ("CX", <<0, 1>>, <<>>), GQ("H", <<2>>, <<>>) >>), PP(<< GQ("R", <<0>>, <<1>>), SS(<< GQ("CX", <<2, 1>>, <<>>), GQ("S", <<2>>, <<>>) >>) >>) >>),
  SS(<< LL(2, SS(<< PP(<< GQ("H", <<0>>, <<>>), GQ("H", <<1>>, <<>>) >>), GQ("CX", <<0, 1>>, <<>>) >>)), PP(<< GQ("F", <<0, 1, 2>>, <<>>) >>) >>),
  PP(<< SS(<< GQ("H", <<0>>, <<>>), GQ("S", <<0>>, <<>>), GQ("H", <<0>>, <<>>) >>), SS(<< GQ("H", <<1>>, <<>>), GQ("CR", <<1, 2>>, <<3>>), GQ("N", <<2>>, <<>>) >>) >>),
  PP(<< GQ("I_X", <<0>>, <<>>), GQ("X", <<0>>, <<>>), GQ("H", <<1>>, <<>>) >>)
>>
Tree0 == Trees[Which]

\* textual order of the gates of a tree (loops unrolled)
RECURSIVE Textual(_)
RECURSIVE TextualSeq(_)
TextualSeq(ms) == IF ms = <<>> THEN <<>> ELSE Textual(Head(ms)) \o TextualSeq(Tail(ms))
Textual(m) == CASE m.k = "G" -> <<m>> [] m.k = "L" -> RepSeq(m.cnt.n, Textual(m.c[1])) [] OTHER -> TextualSeq(m.c)
Ref == Emulate(Textual(Tree0), NQubits, TheProg)

\* loops unrolled into sequences
RECURSIVE UnrollTree(_)
UnrollTree(m) == CASE m.k = "G" -> m
                   [] m.k = "L" -> SS(RepSeq(m.cnt.n, <<UnrollTree(m.c[1])>>))
                   [] OTHER -> [m EXCEPT !.c = [j \in DOMAIN m.c |-> UnrollTree(m.c[j])]]
Done0 == [k |-> "S", c |-> <<>>]
RECURSIVE EmptyTree(_)
EmptyTree(m) == m.k # "G" /\ \A j \in DOMAIN m.c : EmptyTree(m.c[j])
\* the minimal pending gates with the tree that remains after each: a set of <<gate, remaining tree>>
RECURSIVE Steps(_)
Steps(m) ==
  CASE m.k = "G" -> { <<m, Done0>> }
    [] m.k = "S" -> IF \A j \in DOMAIN m.c : EmptyTree(m.c[j]) THEN {}
                    ELSE LET f == CHOOSE j \in DOMAIN m.c : ~EmptyTree(m.c[j]) /\ \A x \in 1..(j - 1) : EmptyTree(m.c[x])
                         IN { <<p[1], [m EXCEPT !.c[f] = p[2]]>> : p \in Steps(m.c[f]) }
    [] m.k = "P" -> UNION { { <<p[1], [m EXCEPT !.c[j] = p[2]]>> : p \in Steps(m.c[j]) } : j \in DOMAIN m.c }
    [] OTHER -> {}

Init == rest = UnrollTree(Tree0) /\ st = Init0(NQubits)
Apply == \E p \in Steps(rest) : rest' = p[2] /\ st' = ApplyGate(st, p[1], NQubits, TheProg)
Next == Apply
Spec == Init /\ [][Next]_<<rest, st>>
Confluent == EmptyTree(rest) => st = Ref
NormInv == Norm2(st.vec) = 2 ^ st.k
=============================================================================
