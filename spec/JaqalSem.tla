------------------------------- MODULE JaqalSem -------------------------------
(***************************************************************************)
(* Abstract syntax and reference semantics of Jaqal programs (DESIGN 3.3,   *)
(* Appendix B.1-B.3).  Constant-level operators only; the state machines    *)
(* (AstEnum, Lib, Exec ...) and the trace specifications are built on them. *)
(*                                                                          *)
(* AST (the same records are produced by harness/project.py from a real     *)
(* Circuit, by the AstEnum machine, and by AstOfTree from a parse tree):    *)
(*  Num   [k:"num", t:"int"|"flt", v:text, cv:canonical value text,         *)
(*         n:value if integral and small else 0, i:integral-and-small]      *)
(*  Ix    Num | [k:"let",v] | [k:"param",v] | [k:"id",v] | [k:"none"]        *)
(*  Arg   Ix | [k:"reg",v] | [k:"qalias",v] | [k:"qubit", base, idx]         *)
(*        | [k:"other",v]                                                   *)
(*  Stmt  [k:"gate", v:name, cls, args] | [k:"blk", par, sub, iters, body]   *)
(*        | [k:"loop", count, body:blk]                                     *)
(*  Reg   [k:"reg", v:name, size] |                                         *)
(*        [k:"alias", v:name, src, mode:"whole"|"index"|"slice", idx,       *)
(*         start, stop, step]                                               *)
(*  Prog  [lets: Seq([v, val]), regs: Seq(Reg),                             *)
(*         macros: Seq([v, params: Seq(name), body: blk]),                  *)
(*         imports: Seq(name), natives: Seq([v, kinds, cls]), body]         *)
(***************************************************************************)
EXTENDS Naturals, Integers, Sequences, FiniteSets, TLC, JaqalGates

EmptyFn == [x \in {} |-> x]
\* object-level resolution recorded by the projection for a qubit argument (absent in model programs)
NoRes == [ok |-> FALSE, reg |-> "", ix |-> 0]
None == [k |-> "none"]

\* ---------------------------------------------------------------- numbers
NumI(n) == [k |-> "num", t |-> "int", v |-> ToString(n), cv |-> ToString(n), n |-> n, i |-> TRUE]
NumF(text, cv, n, isint) == [k |-> "num", t |-> "flt", v |-> text, cv |-> cv, n |-> n, i |-> isint]
\* the value of a number: what "numbers compared by value" compares (1 = 1.0)
NV(x) == [k |-> "num", cv |-> x.cv, n |-> x.n, i |-> x.i]
BadV(why) == [k |-> "bad", v |-> why]
\* canonical value text of an integral number is a plain decimal integer (no '.', 'e', 'n', 'i')
IntegralText(t) == \A p \in 1..Len(t) : SubSeq(t, p, p) \in {"0","1","2","3","4","5","6","7","8","9","-"}

\* ---------------------------------------------------------------- environment
LetNames(prog) == { prog.lets[j].v : j \in DOMAIN prog.lets }
\* ovr : Seq([v |-> name, val |-> Num]); an override wins over the declared value
Env(prog, ovr) ==
  [nm \in LetNames(prog) |->
     IF \E j \in DOMAIN ovr : ovr[j].v = nm
     THEN NV(ovr[CHOOSE j \in DOMAIN ovr : ovr[j].v = nm].val)
     ELSE NV(prog.lets[CHOOSE j \in DOMAIN prog.lets : prog.lets[j].v = nm].val)]

BadIx == [ok |-> FALSE, n |-> 0]
\* integer value of an index / size / bound / count expression
IxVal(ix, env, bind) ==
  CASE ix.k = "num" -> [ok |-> ix.i, n |-> ix.n]
    [] ix.k = "let" -> IF ix.v \in DOMAIN env THEN [ok |-> env[ix.v].i, n |-> env[ix.v].n] ELSE BadIx
    [] ix.k = "param" -> IF ix.v \in DOMAIN bind /\ bind[ix.v].k = "num"
                         THEN [ok |-> bind[ix.v].i, n |-> bind[ix.v].n] ELSE BadIx
    [] OTHER -> BadIx

\* ---------------------------------------------------------------- alias arithmetic (C06)
\* the sequence a, a+c, a+2c, ... strictly before b (Python's range(a, b, c)); c # 0
RECURSIVE RangeSeq(_, _, _)
RangeSeq(a, b, c) ==
  IF (c > 0 /\ a >= b) \/ (c < 0 /\ a <= b) THEN <<>> ELSE <<a>> \o RangeSeq(a + c, b, c)

BadReg == [ok |-> FALSE, single |-> FALSE, fund |-> "", elems |-> <<>>]
DefaultIx(ix, dflt) == IF ix.k = "none" THEN [ok |-> TRUE, n |-> dflt] ELSE ix

\* meaning of one register declaration given the table of the earlier ones:
\* [ok, single (a one-qubit alias), fund (name of the fundamental register), elems (0-based indices)]
RegEntry(r, env, tab) ==
  IF r.k = "reg"
  THEN LET s == IxVal(r.size, env, EmptyFn) IN
       IF s.ok /\ s.n >= 1 THEN [ok |-> TRUE, single |-> FALSE, fund |-> r.v, elems |-> [x \in 1..s.n |-> x - 1]]
       ELSE BadReg
  ELSE IF r.src \notin DOMAIN tab THEN BadReg
  ELSE LET S == tab[r.src] IN
       IF ~S.ok \/ S.single THEN BadReg
       ELSE CASE r.mode = "whole" -> S
              [] r.mode = "index" ->
                   LET ix == IxVal(r.idx, env, EmptyFn) IN
                   IF ix.ok /\ ix.n >= 0 /\ ix.n < Len(S.elems)
                   THEN [ok |-> TRUE, single |-> TRUE, fund |-> S.fund, elems |-> <<S.elems[ix.n + 1]>>]
                   ELSE BadReg
              [] r.mode = "slice" ->
                   LET a == IF r.start.k = "none" THEN [ok |-> TRUE, n |-> 0] ELSE IxVal(r.start, env, EmptyFn)
                       b == IF r.stop.k = "none" THEN [ok |-> TRUE, n |-> Len(S.elems)] ELSE IxVal(r.stop, env, EmptyFn)
                       c == IF r.step.k = "none" THEN [ok |-> TRUE, n |-> 1] ELSE IxVal(r.step, env, EmptyFn)
                   \* a slice may not reach outside its source: besides every element being a qubit of the
                   \* source, an ascending slice stops at or before the end (C14; this is also what makes
                   \* `map a q[0:5]` on a 3-qubit register an error rather than a silently shorter alias)
                   IN IF ~(a.ok /\ b.ok /\ c.ok) \/ c.n = 0 \/ (c.n > 0 /\ b.n > Len(S.elems)) THEN BadReg
                      ELSE LET js == RangeSeq(a.n, b.n, c.n) IN
                           IF \A p \in DOMAIN js : js[p] >= 0 /\ js[p] < Len(S.elems)
                           THEN [ok |-> TRUE, single |-> FALSE, fund |-> S.fund,
                                 elems |-> [p \in DOMAIN js |-> S.elems[js[p] + 1]]]
                           ELSE BadReg
              [] OTHER -> BadReg

RECURSIVE RegTabFrom(_, _, _, _)
RegTabFrom(regs, j, env, tab) ==
  IF j > Len(regs) THEN tab
  ELSE RegTabFrom(regs, j + 1, env, (regs[j].v :> RegEntry(regs[j], env, tab)) @@ tab)
RegTab(prog, env) == RegTabFrom(prog.regs, 1, env, EmptyFn)

\* all fundamental qubits of the program, as the set of <<register, index>>
AllQubits(tab) == UNION { { <<tab[r].fund, tab[r].elems[p]>> : p \in DOMAIN tab[r].elems } : r \in { x \in DOMAIN tab : tab[x].ok } }

\* ---------------------------------------------------------------- argument values
Q(reg, n) == [k |-> "q", reg |-> reg, ix |-> n]
RegV(e) == [k |-> "regv", reg |-> e.fund, elems |-> e.elems]

OfTab(name, tab) ==
  IF name \in DOMAIN tab /\ tab[name].ok
  THEN (IF tab[name].single THEN Q(tab[name].fund, tab[name].elems[1]) ELSE RegV(tab[name]))
  ELSE BadV("register " \o name)

\* value of a gate argument: env = let environment, tab = register table, bind = macro parameters
ArgV(a, env, tab, bind) ==
  CASE a.k = "num" -> NV(a)
    [] a.k = "let" -> IF a.v \in DOMAIN env THEN env[a.v] ELSE BadV("let " \o a.v)
    [] a.k = "param" -> IF a.v \in DOMAIN bind THEN bind[a.v] ELSE [k |-> "param", v |-> a.v]
    [] a.k \in {"reg", "qalias"} -> OfTab(a.v, tab)
    [] a.k = "qubit" ->
         LET b == IF a.base.k = "param"
                  THEN (IF a.base.v \in DOMAIN bind THEN bind[a.base.v] ELSE [k |-> "param", v |-> a.base.v])
                  ELSE OfTab(a.base.v, tab)
             ix == IxVal(a.idx, env, bind)
             ixUnbound == a.idx.k = "param" /\ a.idx.v \notin DOMAIN bind
         IN IF b.k = "param"
            THEN [k |-> "pq", v |-> b.v, idx |-> IF ix.ok THEN ToString(ix.n) ELSE "?"]     \* unbound parameter
            ELSE IF ixUnbound /\ b.k = "regv" THEN [k |-> "pq", v |-> b.reg, idx |-> a.idx.v]   \* unbound index
            ELSE IF b.k = "regv" /\ ix.ok /\ ix.n >= 0 /\ ix.n < Len(b.elems) THEN Q(b.reg, b.elems[ix.n + 1])
            ELSE BadV("qubit")
    [] OTHER -> BadV("argument")

\* ---------------------------------------------------------------- meaning (normal form)
\*   G(name, args) | S(children) | P(children) | L(count, body) | U(iterations, body) | BAD
MacroNames(prog) == { prog.macros[j].v : j \in DOMAIN prog.macros }
MacroOf(prog, nm) == prog.macros[CHOOSE j \in DOMAIN prog.macros : prog.macros[j].v = nm]

Kind(b) == IF b.par THEN "P" ELSE "S"
\* splice children of the same kind (Seq-in-Seq, Par-in-Par); nothing else is identified
RECURSIVE Splice(_, _)
Splice(kind, ms) ==
  IF ms = <<>> THEN <<>>
  ELSE LET m == Head(ms) IN
       (IF m.k = kind THEN m.c ELSE <<m>>) \o Splice(kind, Tail(ms))

CountV(ix, env, bind) ==
  CASE ix.k = "num" -> NV(ix)
    [] ix.k = "let" -> IF ix.v \in DOMAIN env THEN env[ix.v] ELSE BadV("let " \o ix.v)
    [] ix.k = "param" -> IF ix.v \in DOMAIN bind THEN bind[ix.v] ELSE [k |-> "param", v |-> ix.v]
    [] OTHER -> BadV("count")

MaxMacroDepth == 8

RECURSIVE M(_, _, _, _, _, _, _)
RECURSIVE MSeq(_, _, _, _, _, _, _)
MSeq(ss, prog, env, tab, bind, erase, d) ==
  IF ss = <<>> THEN <<>>
  ELSE <<M(Head(ss), prog, env, tab, bind, erase, d)>> \o MSeq(Tail(ss), prog, env, tab, bind, erase, d)

M(s, prog, env, tab, bind, erase, d) ==
  CASE s.k = "gate" ->
         IF s.v \in MacroNames(prog)
         THEN LET m == MacroOf(prog, s.v) IN
              IF Len(m.params) # Len(s.args) THEN [k |-> "BAD", v |-> "arity " \o s.v]
              ELSE IF d >= MaxMacroDepth THEN [k |-> "BAD", v |-> "depth"]
              ELSE LET vals == [j \in DOMAIN s.args |-> ArgV(s.args[j], env, tab, bind)]
                       b2 == [p \in { m.params[j] : j \in DOMAIN m.params } |->
                                vals[CHOOSE j \in DOMAIN m.params : m.params[j] = p]]
                   IN IF \E j \in DOMAIN vals : vals[j].k = "bad" THEN [k |-> "BAD", v |-> "argument of " \o s.v]
                      ELSE M(m.body, prog, env, tab, b2, erase, d + 1)
         ELSE [k |-> "G", v |-> s.v, args |-> [j \in DOMAIN s.args |-> ArgV(s.args[j], env, tab, bind)]]
    [] s.k = "blk" ->
         LET node == [k |-> Kind(s), c |-> Splice(Kind(s), MSeq(s.body, prog, env, tab, bind, erase, d))] IN
         IF s.sub /\ ~erase THEN [k |-> "U", cnt |-> CountV(s.iters, env, bind), c |-> <<node>>] ELSE node
    [] s.k = "loop" ->
         [k |-> "L", cnt |-> CountV(s.count, env, bind), c |-> <<M(s.body, prog, env, tab, bind, erase, d)>>]
    [] OTHER -> [k |-> "BAD", v |-> "statement"]

MeaningX(prog, ovr, erase) ==
  LET env == Env(prog, ovr)
      tab == RegTab(prog, env)
  IN [k |-> "S", c |-> Splice("S", MSeq(prog.body, prog, env, tab, EmptyFn, erase, 0))]
Meaning(prog, ovr) == MeaningX(prog, ovr, FALSE)
MeaningModSub(prog, ovr) == MeaningX(prog, ovr, TRUE)

\* does a meaning contain a BAD node or a bad argument (the program is not valid)?
RECURSIVE HasBad(_)
HasBad(m) ==
  CASE m.k = "BAD" -> TRUE
    [] m.k = "G" -> \E j \in DOMAIN m.args : m.args[j].k \in {"bad", "param", "pq"}
    [] m.k \in {"L", "U"} -> m.cnt.k # "num" \/ ~m.cnt.i \/ m.cnt.n < 0 \/ HasBad(m.c[1])
    [] OTHER -> \E j \in DOMAIN m.c : HasBad(m.c[j])

\* a subcircuit may not lie inside a parallel block or another subcircuit, not even through a macro call
\* (the parser enforces this for direct nesting; after macro expansion it is a property of the meaning)
RECURSIVE SubNestBad(_, _)
SubNestBad(m, inside) ==
  CASE m.k = "U" -> inside \/ SubNestBad(m.c[1], TRUE)
    [] m.k = "P" -> \E j \in DOMAIN m.c : SubNestBad(m.c[j], TRUE)
    [] m.k = "S" -> \E j \in DOMAIN m.c : SubNestBad(m.c[j], inside)
    [] m.k = "L" -> SubNestBad(m.c[1], inside)
    [] OTHER -> FALSE

\* ---------------------------------------------------------------- syntactic predicates on ASTs
\* every statement reachable from s without going through macro calls, in pre-order
RECURSIVE StmtsOf(_)
RECURSIVE StmtsOfSeq(_)
StmtsOfSeq(ss) == IF ss = <<>> THEN <<>> ELSE StmtsOf(Head(ss)) \o StmtsOfSeq(Tail(ss))
StmtsOf(s) == <<s>> \o (CASE s.k = "blk" -> StmtsOfSeq(s.body)
                           [] s.k = "loop" -> StmtsOf(s.body)
                           [] OTHER -> <<>>)
BodyStmts(prog) == StmtsOfSeq(prog.body)
RECURSIVE MacroStmtsFrom(_, _)
MacroStmtsFrom(ms, j) == IF j > Len(ms) THEN <<>> ELSE StmtsOf(ms[j].body) \o MacroStmtsFrom(ms, j + 1)
MacroStmts(prog) == MacroStmtsFrom(prog.macros, 1)
AllStmts(prog) == BodyStmts(prog) \o MacroStmts(prog)

IsSubBlk(s) == s.k = "blk" /\ s.sub
IsMacroCallIn(prog, s) == s.k = "gate" /\ s.v \in MacroNames(prog)

IxRefsLet(ix) == ix.k = "let"
ArgRefsLet(a) == a.k = "let" \/ (a.k = "qubit" /\ IxRefsLet(a.idx))
StmtRefsLet(s) ==
  \/ s.k = "gate" /\ \E j \in DOMAIN s.args : ArgRefsLet(s.args[j])
  \/ s.k = "loop" /\ IxRefsLet(s.count)
  \/ s.k = "blk" /\ IxRefsLet(s.iters)
RegRefsLet(r) ==
  IF r.k = "reg" THEN IxRefsLet(r.size)
  ELSE IxRefsLet(r.idx) \/ IxRefsLet(r.start) \/ IxRefsLet(r.stop) \/ IxRefsLet(r.step)

ArgRefsAlias(a, tab, fundNames) ==
  \/ a.k = "qalias"
  \/ a.k = "reg" /\ a.v \notin fundNames
  \/ a.k = "qubit" /\ a.base.k = "reg" /\ a.base.v \notin fundNames
FundNames(prog) == { prog.regs[j].v : j \in { x \in DOMAIN prog.regs : prog.regs[x].k = "reg" } }

\* every qubit argument of the main body whose OBJECT could be resolved by the implementation
\* (NamedQubit.resolve_qubit) resolves to what the declarations of the same circuit say (C06; a pass that
\* rebuilds the header but re-uses argument objects leaves references hanging off stale registers)
ObjRefsFollowDecls(prog) ==
  LET env == Env(prog, <<>>)
      tab == RegTab(prog, env)
      ss == BodyStmts(prog)
  IN \A j \in DOMAIN ss : ss[j].k = "gate" =>
        \A a \in DOMAIN ss[j].args :
           LET x == ss[j].args[a] IN
           (x.k \in {"qubit", "qalias"} /\ x.res.ok) =>
              LET v == ArgV(x, env, tab, EmptyFn) IN v.k = "q" /\ v.reg = x.res.reg /\ v.ix = x.res.ix

\* ---------------------------------------------------------------- unit-time schedule (C19, Appendix B.6)
\* every gate takes one time unit; the branches of a parallel block start together; a loop is an opaque
\* item of one slot (it is kept as an item by the normalisation, so the slot is the same on both sides)
RECURSIVE Dur(_)
RECURSIVE DurSum(_)
RECURSIVE DurMax(_)
DurSum(ss) == IF ss = <<>> THEN 0 ELSE Dur(Head(ss)) + DurSum(Tail(ss))
DurMax(ss) == IF ss = <<>> THEN 0 ELSE LET a == Dur(Head(ss)) b == DurMax(Tail(ss)) IN IF a > b THEN a ELSE b
Dur(s) == CASE s.k = "gate" -> 1
            [] s.k = "loop" -> 1
            [] s.k = "blk" -> IF s.par THEN DurMax(s.body) ELSE DurSum(s.body)
            [] OTHER -> 0
RECURSIVE Sched(_, _)
RECURSIVE SchedSeq(_, _)
RECURSIVE SchedPar(_, _)
SchedSeq(ss, t) == IF ss = <<>> THEN <<>> ELSE Sched(Head(ss), t) \o SchedSeq(Tail(ss), t + Dur(Head(ss)))
SchedPar(ss, t) == IF ss = <<>> THEN <<>> ELSE Sched(Head(ss), t) \o SchedPar(Tail(ss), t)
Sched(s, t) == CASE s.k = "gate" -> << <<s, t>> >>
                 [] s.k = "loop" -> << <<s, t>> >>
                 [] s.k = "blk" -> IF s.par THEN SchedPar(s.body, t) ELSE SchedSeq(s.body, t)
                 [] OTHER -> <<>>
BagOf(sq) == [x \in { sq[j] : j \in DOMAIN sq } |-> Cardinality({ j \in DOMAIN sq : sq[j] = x })]
Schedule(prog) == BagOf(SchedSeq(prog.body, 0))
\* a loop somewhere inside a parallel block.  A loop is an opaque item of the normal form (C19: "a flat sequence of gates,
\* parallel groups and loops"): the body of a loop that is NOT inside a parallel block is not looked into
RECURSIVE LoopInPar(_, _)
LoopInPar(s, inpar) ==
  CASE s.k = "loop" -> inpar
    [] s.k = "blk" -> \E j \in DOMAIN s.body : LoopInPar(s.body[j], inpar \/ s.par)
    [] OTHER -> FALSE
\* normal form: gates, parallel groups of gates, loops; a subcircuit block stays a block (its annotation must
\* survive) whose own body is in normal form
RECURSIVE FlatItems(_)
FlatItems(ss) == \A j \in DOMAIN ss :
  LET s == ss[j] IN
  \/ s.k \in {"gate", "loop"}
  \/ (s.k = "blk" /\ s.par /\ ~s.sub /\ \A x \in DOMAIN s.body : s.body[x].k = "gate")
  \/ (s.k = "blk" /\ s.sub /\ ~s.par /\ FlatItems(s.body))
FlatBody(prog) == FlatItems(prog.body)
\* the subcircuit blocks of a body in order, each with its count and the schedule of its own body
RECURSIVE SubShapeSeq(_)
SubShapeSeq(ss) ==
  IF ss = <<>> THEN <<>>
  ELSE LET s == Head(ss) IN
       (CASE s.k = "blk" /\ s.sub -> << [iters |-> s.iters, sched |-> BagOf(SchedSeq(s.body, 0))] >>
          [] s.k = "blk" -> SubShapeSeq(s.body)
          [] OTHER -> <<>>) \o SubShapeSeq(Tail(ss))

\* ---------------------------------------------------------------- static validity (C14, Appendix B.7)
\* the harness compresses a native table identical to the exact family into a one-element tag
NativesOf(prog) == IF prog.natives # <<>> /\ prog.natives[1].cls = "tag" THEN ExactGates ELSE prog.natives
NativeNames(prog) == { NativesOf(prog)[j].v : j \in DOMAIN NativesOf(prog) }
NativeOf(prog, nm) == NativesOf(prog)[CHOOSE j \in DOMAIN NativesOf(prog) : NativesOf(prog)[j].v = nm]
\* does a (syntactic) argument fit a declared parameter kind, in environment env?
NumFits(kind, nv) == CASE kind = "int" -> nv.i \/ (nv.k = "num" /\ nv.cv \notin {"inf", "-inf", "nan"} /\ IntegralText(nv.cv))
                       [] kind = "float" -> TRUE
                       [] kind = "none" -> TRUE
                       [] OTHER -> FALSE
ArgFits(kind, a, env, tab) ==
  CASE a.k = "num" -> NumFits(kind, NV(a))
    [] a.k = "let" -> a.v \in DOMAIN env /\ NumFits(kind, env[a.v])
    [] a.k = "param" -> TRUE                       \* untyped macro parameter: checked when the macro is expanded
    [] a.k = "qubit" -> kind \in {"qubit", "none"}
    \* a bare name denotes a qubit if it is a single-qubit alias and a register otherwise
    [] a.k \in {"reg", "qalias"} -> a.v \in DOMAIN tab /\ tab[a.v].ok /\
                                      (IF tab[a.v].single THEN kind \in {"qubit", "none"} ELSE kind \in {"register", "none"})
    [] OTHER -> FALSE
\* a gate statement is well-typed: macro or native of the right arity whose arguments fit; with an
\* anonymous gate set (no native table) every name and every argument list is acceptable
GateTyped(prog, s, env, tab) ==
  IF s.v \in MacroNames(prog) THEN Len(MacroOf(prog, s.v).params) = Len(s.args)
  ELSE IF prog.natives = <<>> THEN TRUE
  ELSE /\ s.v \in NativeNames(prog)
       /\ LET g == NativeOf(prog, s.v) IN
            /\ Len(g.kinds) = Len(s.args)
            /\ \A j \in DOMAIN s.args : ArgFits(g.kinds[j], s.args[j], env, tab)
TypeOK(prog, ovr) ==
  LET env == Env(prog, ovr)
      tab == RegTab(prog, env)
      ss == AllStmts(prog)
  IN \A j \in DOMAIN ss : ss[j].k = "gate" => GateTyped(prog, ss[j], env, tab)

\* no identifier is declared twice (lets, registers and aliases share one namespace; macros another,
\* shared with the native gates)
NoDupNames(prog) ==
  LET names == [j \in 1..(Len(prog.lets) + Len(prog.regs)) |->
                  IF j <= Len(prog.lets) THEN prog.lets[j].v ELSE prog.regs[j - Len(prog.lets)].v]
  IN /\ \A a, b \in DOMAIN names : a # b => names[a] # names[b]
     /\ \A a, b \in DOMAIN prog.macros : a # b => prog.macros[a].v # prog.macros[b].v
     /\ \A a \in DOMAIN prog.macros : prog.macros[a].v \notin NativeNames(prog)
\* a meaning contains a definitely bad reference (unbound parameters are not bad: they are checked at expansion)
RECURSIVE HasBadStrict(_)
HasBadStrict(m) ==
  CASE m.k = "BAD" -> TRUE
    [] m.k = "G" -> \E j \in DOMAIN m.args : m.args[j].k = "bad"
    [] m.k \in {"L", "U"} -> m.cnt.k = "bad" \/ (m.cnt.k = "num" /\ (~m.cnt.i \/ m.cnt.n < 0)) \/ HasBadStrict(m.c[1])
    [] OTHER -> \E j \in DOMAIN m.c : HasBadStrict(m.c[j])
\* the body of every macro (called or not) is valid as far as it does not depend on its parameters
MacroBodiesOK(prog, ovr) ==
  LET env == Env(prog, ovr)
      tab == RegTab(prog, env)
  IN \A j \in DOMAIN prog.macros : ~HasBadStrict(M(prog.macros[j].body, prog, env, tab, EmptyFn, FALSE, 0))
\* typing AFTER macro expansion: an untyped macro parameter fits every position syntactically (ArgFits), but what a
\* call actually passes must fit the signature of the native gate it ends up in (C14: "a call with the wrong ... kind
\* of arguments", known at macro expansion)
MArgFits(kind, a) ==
  CASE a.k = "q" -> kind \in {"qubit", "none"}
    [] a.k = "regv" -> kind \in {"register", "none"}
    [] a.k = "num" -> NumFits(kind, a)
    [] OTHER -> FALSE
RECURSIVE MeaningTypedNode(_, _)
MeaningTypedNode(prog, m) ==
  CASE m.k = "G" -> m.v \notin NativeNames(prog) \/
                    LET g == NativeOf(prog, m.v) IN
                    Len(g.kinds) = Len(m.args) /\ \A j \in DOMAIN m.args : MArgFits(g.kinds[j], m.args[j])
    [] m.k \in {"S", "P", "L", "U"} -> \A j \in DOMAIN m.c : MeaningTypedNode(prog, m.c[j])
    [] OTHER -> TRUE
MeaningTyped(prog, ovr) == prog.natives = <<>> \/ MeaningTypedNode(prog, Meaning(prog, ovr))
\* full static validity of a (program, override) pair
ValidAll(prog, ovr) ==
  /\ NoDupNames(prog)
  /\ MacroBodiesOK(prog, ovr)
  /\ LET t == RegTab(prog, Env(prog, ovr)) IN \A r \in DOMAIN t : t[r].ok
  /\ ~HasBad(Meaning(prog, ovr))
  /\ ~SubNestBad(Meaning(prog, ovr), FALSE)
  /\ TypeOK(prog, ovr)
  /\ MeaningTyped(prog, ovr)

\* ---------------------------------------------------------------- declarations (order-insensitive)
SeqToSet(s) == { s[j] : j \in DOMAIN s }
Decls(prog) == [lets |-> SeqToSet(prog.lets), regs |-> SeqToSet(prog.regs), imports |-> SeqToSet(prog.imports)]
MacroSet(prog) == SeqToSet(prog.macros)
NativeSet(prog) == SeqToSet(prog.natives)
=============================================================================
