------------------------------ MODULE Conform_Front ------------------------------
(* Trace validation for C17: one case = one builder behaviour rendered three ways.
   [text: [cls, prog], builder: [cls, prog], q: [cls, prog], eq_tb, eq_tq (== with the text circuit of the
    WRAPPED program), wrapped: [cls, prog] (text route of the program with explicit prepare/measure),
    anon: Seq(name) (declared names left anonymous in the Q route), users: Seq(name) (user-chosen names),
    qa: [cls, prog] (Q route with those names anonymous)]                                          *)
EXTENDS JaqalFront, Json, IOUtils
Cases == JsonDeserialize(IOEnv.CASES)

PositionalNames(c) ==
  \* map each anonymous declared name to the name the Q circuit actually got (same declaration position)
  LET t == c.text.prog  q == c.qa.prog
      ls == { j \in DOMAIN t.lets : t.lets[j].v \in SeqToSet(c.anon) }
      rs == { j \in DOMAIN t.regs : t.regs[j].v \in SeqToSet(c.anon) }
  IN [nm \in SeqToSet(c.anon) |->
        IF \E j \in ls : t.lets[j].v = nm
        THEN q.lets[CHOOSE j \in ls : t.lets[j].v = nm].v
        ELSE q.regs[CHOOSE j \in rs : t.regs[j].v = nm].v]

FClauses(c) ==
  LET t == c.text  b == c.builder  q == c.q IN
  F("all_accept", t.cls # "ok" \/ b.cls # "ok" \/ q.cls # "ok")
  \cup (IF t.cls = "ok" /\ b.cls = "ok" THEN F("text_eq_builder", t.prog # b.prog \/ ~c.eq_tb) ELSE {})
  \cup (IF t.cls = "ok" /\ q.cls = "ok"
        THEN F("q_wrap", q.prog.body # QWrap(t.prog.body, IF t.prog.natives = <<>> THEN "anon" ELSE "native"))
             \cup F("text_eq_q", [q.prog EXCEPT !.body = <<>>] # [t.prog EXCEPT !.body = <<>>]
                                 \/ (IF QWrapNeeded(t.prog.body)
                                      THEN c.wrapped.cls # "ok" \/ q.prog # c.wrapped.prog \/ ~c.eq_q_wrapped
                                      ELSE q.prog # t.prog \/ ~c.eq_q_plain))
        ELSE {})
  \cup (IF c.anon # <<>> /\ t.cls = "ok"
        THEN F("anon_accept", c.qa.cls # "ok")
             \cup (IF c.qa.cls # "ok" \/ Len(c.qa.prog.lets) # Len(t.prog.lets) \/ Len(c.qa.prog.regs) # Len(t.prog.regs)
                   THEN F("anon_shape", c.qa.cls = "ok")
                   ELSE LET f == PositionalNames(c)
                            fresh == { f[nm] : nm \in DOMAIN f }
                        IN F("fresh_names", fresh \cap SeqToSet(c.users) # {} \/ Cardinality(fresh) # Cardinality(DOMAIN f))
                           \cup F("anon_same_program", c.q.cls = "ok" /\ c.qa.prog # RenProg(c.q.prog, f)))
        ELSE {})

VARIABLE i
Init == i = 1
Case == /\ i <= Len(Cases)
        /\ i' = i + 1
        /\ LET cl == FClauses(Cases[i]) IN cl = {} \/ PrintT(<<"V", Cases[i].id, cl, {}>>)
Done == i = Len(Cases) + 1 /\ i' = i + 1 /\ PrintT(<<"DONE", i - 1>>)
Next == Case \/ Done
Spec == Init /\ [][Next]_i
=============================================================================
