-------------------------------- MODULE JaqalLex --------------------------------
(***************************************************************************)
(* Character-level lexer of Jaqal (DESIGN 3.1).  A text is a sequence of    *)
(* character codes.  Patterns, in priority order (longest match is NOT used *)
(* by the implementation's master regular expression: first alternative     *)
(* that matches wins, in the order below):                                  *)
(*   NL  \n+ | IDENTIFIER [a-zA-Z_](\.?[a-zA-Z0-9_])* | DOTIDENTIFIER        *)
(*   | NUMBER [-+]?[0-9]*\.[0-9]+([eE][-+]?[0-9]+)? | INT [-+]?[0-9]+        *)
(*   | BININT '[01]+' | // comment | block comment (first */ ends it)       *)
(*   | one-character literals; blanks and tabs are skipped.                 *)
(* Tokenize yields tokens [t, v, p] in the vocabulary of JaqalParse (t),    *)
(* with p the 1-based character position, or an "ERR" token at the first    *)
(* illegal character.                                                       *)
(***************************************************************************)
EXTENDS Naturals, Integers, Sequences, FiniteSets, TLC

IsDigit(c) == c >= 48 /\ c <= 57
IsAlpha(c) == (c >= 65 /\ c <= 90) \/ (c >= 97 /\ c <= 122) \/ c = 95
IsAlnum(c) == IsAlpha(c) \/ IsDigit(c)
At(s, p) == IF p >= 1 /\ p <= Len(s) THEN s[p] ELSE 0

RECURSIVE RunDigits(_, _)
RunDigits(s, p) == IF IsDigit(At(s, p)) THEN 1 + RunDigits(s, p + 1) ELSE 0
RECURSIVE IdentTail(_, _)
IdentTail(s, p) == IF IsAlnum(At(s, p)) THEN 1 + IdentTail(s, p + 1)
                   ELSE IF At(s, p) = 46 /\ IsAlnum(At(s, p + 1)) THEN 2 + IdentTail(s, p + 2)
                   ELSE 0
MatchIdent(s, p) == IF IsAlpha(At(s, p)) THEN 1 + IdentTail(s, p + 1) ELSE 0
MatchDotIdent(s, p) == IF At(s, p) = 46 THEN 1 + MatchIdent(s, p + 1) ELSE 0
SignLen(s, p) == IF At(s, p) \in {43, 45} THEN 1 ELSE 0
MatchNumber(s, p) ==
  LET a == p + SignLen(s, p)
      b == a + RunDigits(s, a)
  IN IF At(s, b) = 46 /\ IsDigit(At(s, b + 1))
     THEN LET c == b + 1 + RunDigits(s, b + 1)
              e == IF At(s, c) \in {69, 101}
                   THEN LET d == c + 1 + SignLen(s, c + 1) IN
                        IF IsDigit(At(s, d)) THEN d + RunDigits(s, d) ELSE c
                   ELSE c
          IN e - p
     ELSE 0
MatchInt(s, p) == LET a == p + SignLen(s, p) IN IF IsDigit(At(s, a)) THEN a + RunDigits(s, a) - p ELSE 0
RECURSIVE RunBin(_, _)
RunBin(s, p) == IF At(s, p) \in {48, 49} THEN 1 + RunBin(s, p + 1) ELSE 0
MatchBin(s, p) == IF At(s, p) = 39 /\ RunBin(s, p + 1) > 0 /\ At(s, p + 1 + RunBin(s, p + 1)) = 39
                  THEN 2 + RunBin(s, p + 1) ELSE 0
RECURSIVE ToEOL(_, _)
ToEOL(s, p) == IF p > Len(s) \/ s[p] = 10 THEN 0 ELSE 1 + ToEOL(s, p + 1)
MatchLine(s, p) == IF At(s, p) = 47 /\ At(s, p + 1) = 47 THEN 2 + ToEOL(s, p + 2) ELSE 0
RECURSIVE ToStarSlash(_, _)   \* length up to and including the FIRST star-slash; -1 if there is none
ToStarSlash(s, p) == IF p + 1 > Len(s) THEN -1
                     ELSE IF s[p] = 42 /\ s[p + 1] = 47 THEN 2
                     ELSE LET r == ToStarSlash(s, p + 1) IN IF r < 0 THEN -1 ELSE 1 + r
MatchBlock(s, p) == IF At(s, p) = 47 /\ At(s, p + 1) = 42
                    THEN LET r == ToStarSlash(s, p + 2) IN IF r < 0 THEN 0 ELSE 2 + r ELSE 0
RECURSIVE RunNL(_, _)
RunNL(s, p) == IF At(s, p) = 10 THEN 1 + RunNL(s, p + 1) ELSE 0

LitOf(c) == CASE c = 60 -> "<" [] c = 62 -> ">" [] c = 124 -> "|" [] c = 123 -> "{" [] c = 125 -> "}"
              [] c = 59 -> ";" [] c = 91 -> "[" [] c = 93 -> "]" [] c = 44 -> "," [] c = 42 -> "*"
              [] c = 58 -> ":" [] OTHER -> ""

\* keywords, as character codes
KwTable == << <<"register", <<114,101,103,105,115,116,101,114>> >>, <<"map", <<109,97,112>> >>,
              <<"let", <<108,101,116>> >>, <<"macro", <<109,97,99,114,111>> >>, <<"loop", <<108,111,111,112>> >>,
              <<"import", <<105,109,112,111,114,116>> >>, <<"usepulses", <<117,115,101,112,117,108,115,101,115>> >>,
              <<"from", <<102,114,111,109>> >>, <<"as", <<97,115>> >>, <<"branch", <<98,114,97,110,99,104>> >>,
              <<"subcircuit", <<115,117,98,99,105,114,99,117,105,116>> >> >>
KindOfIdent(w) == IF \E j \in DOMAIN KwTable : KwTable[j][2] = w
                  THEN KwTable[CHOOSE j \in DOMAIN KwTable : KwTable[j][2] = w][1] ELSE "ID"

\* payload of an INT token as far as the grammar's static checks need it: "0", "-" (negative) or "+"
IntClass(w) == LET neg == w[1] = 45
                   ds == IF w[1] \in {43, 45} THEN SubSeq(w, 2, Len(w)) ELSE w
               IN IF \A j \in DOMAIN ds : ds[j] = 48 THEN "0" ELSE IF neg THEN "-1" ELSE "1"

TokRec(t, v, p) == [t |-> t, v |-> v, p |-> p]
RECURSIVE Tokenize(_, _)
Tokenize(s, p) ==
  IF p > Len(s) THEN <<>>
  ELSE IF s[p] \in {32, 9} THEN Tokenize(s, p + 1)
  ELSE LET nl == RunNL(s, p)  id == MatchIdent(s, p)  di == MatchDotIdent(s, p)
           nu == MatchNumber(s, p)  it == MatchInt(s, p)  bi == MatchBin(s, p)
           lc == MatchLine(s, p)  bc == MatchBlock(s, p)
       IN CASE nl > 0 -> <<TokRec("NL", "", p)>> \o Tokenize(s, p + nl)
            [] id > 0 -> <<TokRec(KindOfIdent(SubSeq(s, p, p + id - 1)), "", p)>> \o Tokenize(s, p + id)
            [] di > 0 -> <<TokRec("DOTID", "", p)>> \o Tokenize(s, p + di)
            [] nu > 0 -> <<TokRec("NUM", "", p)>> \o Tokenize(s, p + nu)
            [] it > 0 -> <<TokRec("INT", IntClass(SubSeq(s, p, p + it - 1)), p)>> \o Tokenize(s, p + it)
            [] bi > 0 -> <<TokRec("BININT", "", p)>> \o Tokenize(s, p + bi)
            [] lc > 0 -> Tokenize(s, p + lc)
            [] bc > 0 -> Tokenize(s, p + bc)
            [] LitOf(s[p]) # "" -> <<TokRec(LitOf(s[p]), "", p)>> \o Tokenize(s, p + 1)
            [] OTHER -> <<TokRec("ERR", "", p)>>
Lex(s) == Tokenize(s, 1)
LexOK(ts) == ts = <<>> \/ ts[Len(ts)].t # "ERR"
=============================================================================
