------------------------------ MODULE ValidateEnum ------------------------------
(* Enumeration machine for the validation-comment reader and writer (JaqalValidate).
   Mode "lines":  the text grows by one line of a fixed alphabet per step while the reader's verdict is "ok";
                  every state is emitted, the harness joins the texts, feeds them to the real
                  parse_jaqal_validation and TLC (Conform_Validate) validates verdict and collected data.
   Mode "exec":   an abstract execution grows by one readout per step (nq qubits, subs subcircuits with fixed
                  dyadic distributions); invariant RoundTripInv: the writer's lines are read back as exactly
                  that execution and compare as "agree"; any single-field corruption compares as "differ". *)
EXTENDS JaqalValidate, Json
CONSTANTS Mode, MaxLines
VARIABLES lines, rd

W(s, k, n, b, pn) == [s |-> s, k |-> k, n |-> n, b |-> b, pn |-> pn]
L(txt, cm, s, w) == [txt |-> txt, cm |-> cm, s |-> s, w |-> w]
Half == PScale \div 2
Alphabet == <<
  L("", FALSE, "", <<>>),
  L("//", TRUE, "", <<>>),
  L("X q[0]", FALSE, "", <<>>),
  L("// EXPECTED READOUTS", TRUE, "EXPECTED READOUTS", <<W("EXPECTED", "alpha", -1, <<>>, -1), W("READOUTS", "alpha", -1, <<>>, -1)>>),
  L("// EXPECTED PROBABILITIES", TRUE, "EXPECTED PROBABILITIES", <<W("EXPECTED", "alpha", -1, <<>>, -1), W("PROBABILITIES", "alpha", -1, <<>>, -1)>>),
  L("// 10 1 0", TRUE, "10 1 0", <<W("10", "nat", 10, <<1, 0>>, 10 * 0 - 1), W("1", "nat", 1, <<1>>, PScale), W("0", "nat", 0, <<0>>, 0)>>),
  L("// 01 2 0.5", TRUE, "01 2 0.5", <<W("01", "nat", 1, <<0, 1>>, PScale), W("2", "nat", 2, <<>>, -1), W("0.5", "other", -1, <<>>, Half)>>),
  L("// SUBCIRCUIT 0", TRUE, "SUBCIRCUIT 0", <<W("SUBCIRCUIT", "alpha", -1, <<>>, -1), W("0", "nat", 0, <<0>>, 0)>>),
  L("// SUBCIRCUIT 1", TRUE, "SUBCIRCUIT 1", <<W("SUBCIRCUIT", "alpha", -1, <<>>, -1), W("1", "nat", 1, <<1>>, PScale)>>),
  L("// note", TRUE, "note", <<W("note", "alpha", -1, <<>>, -1)>>),
  L("// 11 x 0", TRUE, "11 x 0", <<W("11", "nat", 11, <<1, 1>>, -1), W("x", "alpha", -1, <<>>, -1), W("0", "nat", 0, <<0>>, 0)>>),
  L("  //   EXPECTED READOUTS  ", TRUE, "EXPECTED READOUTS", <<W("EXPECTED", "alpha", -1, <<>>, -1), W("READOUTS", "alpha", -1, <<>>, -1)>>)
>>
LinesOf(ls) == [j \in DOMAIN ls |-> Alphabet[ls[j]]]
St == VRead(LinesOf(lines))

\* fixed dyadic distributions of the abstract executions (numerators over 2^30), nq = 2, two subcircuits
NQ == 2
Pr == << <<Half, 0, 0, Half>>, <<PScale, 0, 0, 0>> >>

Init == lines = <<>> /\ rd = <<>>
NextLine == /\ Mode = "lines" /\ Len(lines) < MaxLines /\ St.verdict = "ok"
            /\ \E a \in DOMAIN Alphabet : lines' = Append(lines, a)
            /\ UNCHANGED rd
NextReadout == /\ Mode = "exec" /\ Len(rd) < MaxLines
               /\ \E s \in 0..1 : \E v \in 0..3 : Pr[s + 1][v + 1] > 0 /\ rd' = Append(rd, [sub |-> s, value |-> v])
               /\ UNCHANGED lines
Next == NextLine \/ NextReadout
Spec == Init /\ [][Next]_<<lines, rd>>

Emit == Mode # "lines" \/ PrintT(<<"VL", ToJson([j \in DOMAIN lines |-> Alphabet[lines[j]].txt])>>)

\* ---- reader invariants
\* the section is closed by every line that is not a non-empty comment
ResetInv == lines = <<>> \/ St.verdict # "ok" \/ ~ResetLine(Alphabet[lines[Len(lines)]]) \/ (St.sec = "none" /\ St.sidx = -1)
\* subcircuits are numbered consecutively from 0 within one probabilities section
SubIndexInv == St.verdict # "ok" \/ St.sec # "prob" \/ St.sidx = Len(St.prob) - 1
\* a verdict, once reached, stays (the enumeration stops extending there, so: prefixes of an ok text are ok)
PrefixInv == \A n \in 0..(Len(lines) - 1) : VRead(LinesOf(SubSeq(lines, 1, n))).verdict = "ok"
\* nothing is collected outside a section
NoneInv == St.verdict # "ok" \/ lines = <<>> \/
           LET prev == VRead(LinesOf(SubSeq(lines, 1, Len(lines) - 1))) IN
           prev.sec # "none" \/ IsHeader(Alphabet[lines[Len(lines)]].s) \/ (St.meas = prev.meas /\ St.prob = prev.prob)

\* ---- writer / reader / comparison
Corrupt(as, j, f) ==       \* abstract line j with field f changed
  [as EXCEPT ![j] = CASE f = "v" -> [@ EXCEPT !.v = @ + 1]
                      [] f = "x" -> [@ EXCEPT !.x = IF @ >= Half THEN @ - Half ELSE @ + Half]
                      [] OTHER -> [@ EXCEPT !.b = [q \in DOMAIN @ |-> 1 - @[q]]]]
RoundTripInv ==
  Mode # "exec" \/
  /\ RoundTrip(rd, NQ, Pr)
  /\ LET as == GenLines(rd, NQ, Pr) IN
     \A j \in DOMAIN as : as[j].t \notin {"meas", "prob"} \/
        \A f \in (IF as[j].t = "meas" THEN {"v", "x", "b"} ELSE {"x"}) :
           LET ex == VRead(SpellAll(Corrupt(as, j, f))) IN
           ex.verdict = "ok" /\ Compare(ex, rd, NQ, Pr) = "differ"
=============================================================================
