------------------------------- MODULE ParseEnum -------------------------------
(* Enumeration machine for C02 (and the token strings of C16/C20): the token string grows by one
   alphabet token per step while it is a viable prefix, plus one token (from Past) after the first
   offending one so that the reported position can be tested.  The dumped state is `toks` only; the
   parser state is recomputed by folding Step (DESIGN Appendix A).                                *)
EXTENDS JaqalParse
CONSTANTS MaxLen
VARIABLES toks

\* ---- alphabets (selected by the configuration through the operator-valued constants below)
KW(s) == Tok(s, "")
GrammarAlphabet ==
  { KW("register"), KW("let"), KW("map"), KW("macro"), KW("loop"), KW("subcircuit"),
    Tok("ID", "a"), Tok("ID", "q"), Tok("INT", "2"), Tok("NUM", "1.5"),
    KW("{"), KW("}"), KW("<"), KW(">"), KW("["), KW("]"), KW(":"), KW("|"), KW(";"), KW("NL") }
HeaderAlphabet ==
  { KW("register"), KW("let"), KW("map"), KW("from"), KW("usepulses"), KW("*"), KW("import"), KW("as"),
    Tok("ID", "a"), Tok("ID", "q"), Tok("DOTID", ".m"), Tok("INT", "2"), Tok("INT", "0"), Tok("INT", "-1"),
    Tok("NUM", "1.5"), KW("["), KW("]"), KW(":"), KW(";"), KW("NL"), KW("{"), KW("}") }
LayoutAlphabet ==
  { Tok("ID", "g"), Tok("ID", "q"), Tok("INT", "0"), KW("{"), KW("}"), KW("<"), KW(">"), KW("["), KW("]"),
    KW(";"), KW("|"), KW("NL"), Tok("LC", ""), Tok("BC", "0"), Tok("BC", "1"), Tok("WS", "") }
\* branch statements (experimental): BININT payload = the value of the bit string
BranchAlphabet ==
  { KW("branch"), Tok("BININT", "1"), Tok("BININT", "2"), KW(":"), KW("{"), KW("}"), KW("<"), KW(">"),
    Tok("ID", "g"), KW(";"), KW("NL"), KW("let") }
\* iteration counts of loops and subcircuit blocks: zero, positive, a name, absent
CountsAlphabet ==
  { KW("subcircuit"), KW("loop"), Tok("INT", "0"), Tok("INT", "2"), Tok("INT", "-1"), Tok("ID", "a"), KW("{"), KW("}"), KW("<"), KW(">"), KW("NL") }
NoStart == <<>>
RegisterStart == << KW("register"), Tok("ID", "q"), KW("["), Tok("INT", "2"), KW("]"), KW("NL"), KW("register") >>
BranchStart == << KW("branch"), KW("{"), Tok("BININT", "1"), KW(":"), KW("{") >>
PastSet == { Tok("ID", "q"), KW("NL"), KW("}") }

CONSTANTS Alphabet, Past,
          Start      \* the token string the enumeration starts from (<<>>, or a fixed opening such as "branch { '01' : {")
ASSUME MaxLen \in Nat

Front(s) == SubSeq(s, 1, Len(s) - 1)
Viable(t) == PS(t).verdict = "ok"
\* a line comment extends to the end of the line: only a newline (or the end of input) may follow
LCOK(t, tk) == (Len(t) > 0 /\ t[Len(t)].t = "LC") => tk.t = "NL"

Init == toks = Start
Next == /\ Len(toks) < MaxLen
        /\ \/ /\ Viable(toks)
              /\ \E tk \in Alphabet : LCOK(toks, tk) /\ toks' = Append(toks, tk)
           \/ /\ ~Viable(toks) /\ Viable(Front(toks))
              /\ \E tk \in Past : LCOK(toks, tk) /\ toks' = Append(toks, tk)
Spec == Init /\ [][Next]_toks

NoDrop == NoDropOf(toks)
LayoutErase == LayoutEraseOf(toks)
\* the offending index never moves once set, and nothing is viable after a dead prefix
DeadStaysDead == (Len(toks) > 0 /\ ~Viable(Front(toks))) =>
                    (~Viable(toks) /\ PS(toks).bad = PS(Front(toks)).bad)
\* every reported offending index points into the text or just past it
BadInRange == LET o == Outcome(toks) IN o.v = "syntax" => (o.bad >= 1 /\ o.bad <= Len(toks) + 1)
=============================================================================
