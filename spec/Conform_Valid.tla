------------------------------ MODULE Conform_Valid ------------------------------
(* Trace validation for C14: a (model program, override) pair is pushed through the pipeline
   parse -> fill_in_let(override) -> expand_macros -> run; case = [model: Prog, ovr, stages: Seq([stage, cls]),
   applies (hook H3 events of the run stage), hooked].  The pair's validity is decided on the MODEL program by
   JaqalSem!ValidAll; the clauses are one-directional (invalid => rejected).                               *)
EXTENDS JaqalExec, Json, IOUtils
Cases == JsonDeserialize(IOEnv.CASES)

StageIdx(s) == CASE s = "parse" -> 1 [] s = "let" -> 2 [] s = "macro" -> 3 [] s = "run" -> 4 [] OTHER -> 5
FirstFail(c) == IF \E j \in DOMAIN c.stages : c.stages[j].cls # "ok"
                THEN c.stages[CHOOSE j \in DOMAIN c.stages : c.stages[j].cls # "ok" /\ \A x \in 1..(j - 1) : c.stages[x].cls = "ok"]
                ELSE [stage |-> "none", cls |-> "ok"]

\* violations that are visible from literals alone: known when the text is parsed
LitIx(x) == x.k = "num"
AllLit(r) == r.start.k \in {"num", "none"} /\ r.stop.k \in {"num", "none"} /\ r.step.k \in {"num", "none"}
LiteralInvalid(prog) ==
  LET sizes == [r \in { prog.regs[j].v : j \in { x \in DOMAIN prog.regs : prog.regs[x].k = "reg" /\ LitIx(prog.regs[x].size) } } |->
                  prog.regs[CHOOSE j \in DOMAIN prog.regs : prog.regs[j].v = r /\ prog.regs[j].k = "reg"].size.n]
      ss == AllStmts(prog)
      badQubit(a) == a.k = "qubit" /\ a.base.k = "reg" /\ LitIx(a.idx) /\
                     ((a.base.v \in DOMAIN sizes /\ (a.idx.n < 0 \/ a.idx.n >= sizes[a.base.v]))
                      \/ a.base.v \in LetNames(prog))
      undefinedRef(a) == (a.k = "let" /\ a.v \notin LetNames(prog))
      badAlias(r) == r.k = "alias" /\
                     ( r.src \in LetNames(prog)
                       \/ (r.src \in DOMAIN sizes /\
                           ( (r.mode = "index" /\ LitIx(r.idx) /\ (r.idx.n < 0 \/ r.idx.n >= sizes[r.src]))
                             \/ (r.mode = "slice" /\ LitIx(r.step) /\ r.step.n = 0)
                             \* (whether a slice has any element at all depends on all three bounds: a negative
                             \* start or a stop beyond the source is visible from literals only if none is a constant)
                             \/ (r.mode = "slice" /\ AllLit(r) /\ LitIx(r.start) /\ r.start.n < 0)
                             \/ (r.mode = "slice" /\ AllLit(r) /\ LitIx(r.stop) /\ r.stop.n > sizes[r.src]) )))
  IN \/ ~NoDupNames(prog)
     \/ \E j \in DOMAIN prog.regs : badAlias(prog.regs[j]) \/ (prog.regs[j].k = "reg" /\ LitIx(prog.regs[j].size) /\ prog.regs[j].size.n <= 0)
     \/ \E j \in DOMAIN ss : ss[j].k = "gate" /\ \E a \in DOMAIN ss[j].args : badQubit(ss[j].args[a]) \/ undefinedRef(ss[j].args[a])
     \/ \E j \in DOMAIN ss : ss[j].k = "gate" /\ ss[j].v \notin MacroNames(prog) /\ prog.natives # <<>> /\
           (ss[j].v \notin NativeNames(prog) \/ Len(NativeOf(prog, ss[j].v).kinds) # Len(ss[j].args))

\* the program without its top-level macro calls: what is wrong with it does not depend on a macro argument, so it
\* is known once the constants are (parse or let substitution)
RECURSIVE StripCallsStmt(_, _)
StripCallsStmt(s, names) ==
  CASE s.k = "blk" -> [s EXCEPT !.body = SelectSeq([j \in DOMAIN s.body |-> StripCallsStmt(s.body[j], names)], LAMBDA x : x.k # "dropped")]
    [] s.k = "loop" -> [s EXCEPT !.body = StripCallsStmt(s.body, names)]
    [] s.k = "gate" -> IF s.v \in names THEN [k |-> "dropped"] ELSE s
    [] OTHER -> s
StripCalls(p) == [p EXCEPT !.body = SelectSeq([j \in DOMAIN p.body |-> StripCallsStmt(p.body[j], MacroNames(p))], LAMBDA x : x.k # "dropped")]

\* a negative loop or subcircuit count is not among the references C14 speaks about (the implementation runs such a
\* loop zero times): programs with one are left to the other clauses
RECURSIVE NegCount(_)
NegCount(m) == CASE m.k \in {"L", "U"} -> (m.cnt.k = "num" /\ m.cnt.i /\ m.cnt.n < 0) \/ NegCount(m.c[1])
                 [] m.k \in {"S", "P"} -> \E j \in DOMAIN m.c : NegCount(m.c[j])
                 [] OTHER -> FALSE
AllNonEmpty(prog, ovr) == LET t == RegTab(prog, Env(prog, ovr)) IN \A r \in DOMAIN t : t[r].ok => Len(t[r].elems) >= 1

\* the program written with its macro definitions AFTER the body: a call in the body to one of them names "a gate that is
\* neither native nor a previously defined macro" - refused when a native gate set is in force
MLClauses(c) ==
  F("error_type", \E j \in DOMAIN c.stages : c.stages[j].cls \notin {"ok", "jaqal_error", "parse_error", "skipped"})
  \cup F("forward_call_rejected", c.model.natives # <<>> /\ HasMacroCall(c.model, BodyStmts(c.model)) /\ c.stages[1].cls = "ok")
VClausesPlain(c) ==
  LET valid == ValidAll(c.model, c.ovr)
      ff == FirstFail(c)
      allok == ff.stage = "none"
  IN F("error_type", \E j \in DOMAIN c.stages : c.stages[j].cls \notin {"ok", "jaqal_error", "parse_error", "skipped"})
     \cup F("invalid_rejected", ~valid /\ allok /\ ~NegCount(Meaning(c.model, c.ovr)))
     \* the parsed circuit handed to run_jaqal_circuit as it is (no override): the entry point applies its passes in
     \* its own order, and an invalid program must be refused whatever that order is
     \cup F("error_type", c.direct.cls \notin {"ok", "jaqal_error", "parse_error", "skipped"})
     \cup F("invalid_rejected_direct", c.ovr = <<>> /\ ~valid /\ c.direct.cls = "ok" /\ ~NegCount(Meaning(c.model, <<>>)))
     \* the parser sees the declared values only: acceptance is demanded for pairs valid under both the
     \* declared and the overriding environment
     \* (aliases without elements are left open, see PassClauses!NoEmptyAlias)
     \cup F("valid_accepted", valid /\ ValidAll(c.model, <<>>) /\ ~allok /\
              LET t1 == RegTab(c.model, Env(c.model, c.ovr)) t0 == RegTab(c.model, Env(c.model, <<>>)) IN
              (\A r \in DOMAIN t1 : t1[r].ok => Len(t1[r].elems) >= 1) /\ (\A r \in DOMAIN t0 : t0[r].ok => Len(t0[r].elems) >= 1))
     \* (aliases without elements are left open: PassClauses!NoEmptyAlias)
     \cup F("literal_rejected_at_parse", LiteralInvalid(c.model) /\ AllNonEmpty(c.model, <<>>) /\ ~allok /\ StageIdx(ff.stage) > 1)
     \* (a negative loop / subcircuit count is not a reference C14 speaks about - see NegCount: a program with one is
     \*  "invalid" for the specification, but nothing says it is refused by the let stage)
     \cup F("known_by_let_stage", ~ValidAll(StripCalls(c.model), c.ovr) /\ ~allok /\ StageIdx(ff.stage) > 2
                                   /\ ~NegCount(Meaning(StripCalls(c.model), c.ovr)))
     \cup F("honoured", valid /\ allok /\ c.hooked /\
            LET tree == ExecTree(c.model, c.ovr)
                d == DiscoverRule(tree)
            IN d.accept /\ \E k \in DOMAIN d.pairs :
                 LET sg == SubGates(tree, k)
                     want == LET RECURSIVE Pick(_)
                                 Pick(j) == IF j > Len(sg.gates) THEN <<>>
                                            ELSE (IF GateCls(c.model, sg.gates[j].v) \notin {"idle", "busy"} /\ Mat(sg.gates[j].v, CArgs(sg.gates[j])).has
                                                  THEN <<[gate |-> sg.gates[j].v, qind |-> QArgs(sg.gates[j])]>> ELSE <<>>) \o Pick(j + 1)
                             IN Pick(1)
                     got == LET RECURSIVE Pick2(_)
                                Pick2(j) == IF j > Len(c.applies) THEN <<>>
                                            ELSE (IF c.applies[j].sub = k - 1 THEN <<[gate |-> c.applies[j].gate, qind |-> c.applies[j].qind]>> ELSE <<>>) \o Pick2(j + 1)
                            IN Pick2(1)
                 IN sg.visited /\ got # want)

VClauses(c) == IF c.ml THEN MLClauses(c) ELSE VClausesPlain(c)

VTriggers(c) ==
  F("NegativeLiteral", \E j \in DOMAIN AllStmts(c.model) : AllStmts(c.model)[j].k = "gate" /\
        \E a \in DOMAIN AllStmts(c.model)[j].args : LET x == AllStmts(c.model)[j].args[a] IN x.k = "qubit" /\ x.idx.k = "num" /\ x.idx.n < 0)
  \cup F("HasOverride", c.ovr # <<>>)

VARIABLE i
Init == i = 1
Case == /\ i <= Len(Cases)
        /\ i' = i + 1
        /\ LET cl == VClauses(Cases[i]) IN cl = {} \/ PrintT(<<"V", Cases[i].id, cl, VTriggers(Cases[i])>>)
Done == i = Len(Cases) + 1 /\ i' = i + 1 /\ PrintT(<<"DONE", i - 1>>)
Next == Case \/ Done
Spec == Init /\ [][Next]_i
=============================================================================
