------------------------------- MODULE Conform_Lex -------------------------------
(* Trace validation of the real lexer and parser on raw character strings (C02 / C16):
   case = [id, text: Seq(char codes), lex: [cls, kinds: Seq(kind), pos: Seq(Nat), errpos],
           parse: [cls, eof, off]]                                                              *)
EXTENDS JaqalLex, JaqalParse, Json, IOUtils
Cases == JsonDeserialize(IOEnv.CASES)
F(name, failed) == IF failed THEN {name} ELSE {}

Clauses(c) ==
  LET ts == Lex(c.text)
      ok == LexOK(ts)
      n == IF ok THEN Len(ts) ELSE Len(ts) - 1
      toks == [j \in 1..n |-> [t |-> ts[j].t, v |-> ts[j].v]]
      exp == IF ok THEN Outcome(toks) ELSE [v |-> "lex", bad |-> 0, tree |-> NoWrap, static |-> FALSE]
  IN F("token_kinds", (c.lex.cls = "ok") # ok \/ c.lex.kinds # [j \in 1..n |-> ts[j].t])
     \cup F("token_offsets", c.lex.pos # [j \in 1..n |-> ts[j].p - 1])
     \cup F("lex_error_pos", ~ok /\ c.lex.cls # "ok" /\ c.lex.errpos # ts[Len(ts)].p - 1)
     \cup F("lex_error_type", ~ok /\ c.parse.cls # "parse_error")
     \* the parser reads tokens lazily: a syntax error in the tokens before the illegal character is reported first
     \cup F("lex_position", ~ok /\ c.parse.cls = "parse_error" /\
              LET pre == PS(toks) IN
              ~(IF pre.verdict = "ok" THEN ~c.parse.eof /\ c.parse.off = ts[Len(ts)].p - 1
                ELSE ~c.parse.eof /\ c.parse.off \in ({ ts[j].p - 1 : j \in pre.bad..n } \cup {ts[Len(ts)].p - 1})))
     \cup F("accept_iff", ok /\ ((c.parse.cls = "ok") # (exp.v = "ok")))
     \cup F("error_type", c.parse.cls \notin {"ok", "parse_error"})
     \cup F("position", ok /\ exp.v = "syntax" /\ ~exp.static /\ c.parse.cls = "parse_error" /\
              ~(IF exp.bad > n THEN c.parse.eof
                ELSE c.parse.eof \/ c.parse.off \in { ts[j].p - 1 : j \in exp.bad..n }))

VARIABLE i
Init == i = 1
Case == /\ i <= Len(Cases)
        /\ i' = i + 1
        /\ LET cl == Clauses(Cases[i]) IN cl = {} \/ PrintT(<<"V", Cases[i].id, cl, {}>>)
Done == i = Len(Cases) + 1 /\ i' = i + 1 /\ PrintT(<<"DONE", i - 1>>)
Next == Case \/ Done
Spec == Init /\ [][Next]_i
=============================================================================
