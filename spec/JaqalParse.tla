------------------------------ MODULE JaqalParse ------------------------------
(***************************************************************************)
(* Token-level pushdown recogniser and tree builder for the Jaqal grammar   *)
(* (property C02; reused by C01, C10, C16, C20).                            *)
(*                                                                          *)
(* A token is a record [t |-> kind, v |-> payload string].  Kinds:          *)
(*   keywords   "register" "let" "map" "from" "usepulses" "macro" "loop"    *)
(*              "subcircuit" "import" "as" "branch"                         *)
(*   values     "ID" "DOTID" "INT" "NUM" "BININT" (payload: its value)      *)
(*   punctuation "{" "}" "<" ">" "[" "]" ":" ";" "|" "*" ","                *)
(*   layout     "NL" (one or more newlines), "LC" (line comment, must be    *)
(*              followed by NL or end of input), "BC" (block comment; the   *)
(*              payload says how many newlines it contains), "WS" (blanks)  *)
(*                                                                          *)
(* Step(ps, tk) consumes one token.  ps.verdict is "ok" until the first     *)
(* offending token, whose index (1-based) is recorded in ps.bad; for a      *)
(* header statement met after a body statement the offending token is the   *)
(* first token of that header statement.                                    *)
(* Tree(ps) is the statement tree in the shape of the parser's              *)
(* S-expression: every node is [k, v, c].                                   *)
(***************************************************************************)
EXTENDS Naturals, Integers, Sequences, FiniteSets, TLC

Tok(t, v) == [t |-> t, v |-> v]
Node(k, v, c) == [k |-> k, v |-> v, c |-> c]
Leaf(k, v) == Node(k, v, <<>>)

LayoutKinds == {"LC", "BC", "WS"}          \* ignored by the grammar ("NL" is a separator)
SepKinds == {"NL", ";"}
ParSepKinds == {"NL", "|"}

NoWrap == Leaf("nowrap", "")
Frame(kind, wrap) == [kind |-> kind, wrap |-> wrap, items |-> <<>>]

InitPS == [stk |-> << Frame("top", NoWrap) >>, st |-> "open", cur |-> NoWrap,
           mode |-> "header", verdict |-> "ok", n |-> 0, bad |-> 0, s0 |-> 0, static |-> FALSE]

Top(ps) == ps.stk[Len(ps.stk)]
AddItem(ps, node) ==
  LET d == Len(ps.stk) IN [ps EXCEPT !.stk[d].items = Append(@, node)]

IsSep(ps, tk) == IF Top(ps).kind = "par" THEN tk.t \in ParSepKinds ELSE tk.t \in SepKinds
Closer(ps) == CASE Top(ps).kind = "par" -> ">"
                [] Top(ps).kind \in {"seq", "sub", "branch"} -> "}"
                [] OTHER -> "EOF"

HeaderKinds == {"register", "let", "map", "usepulses", "import"}

Dead(ps) == [ps EXCEPT !.verdict = "syntax", !.bad = ps.n]
DeadAt(ps, i) == [ps EXCEPT !.verdict = "syntax", !.bad = i]

\* Static (non-grammatical) constraints the parser enforces while reducing a statement.
IsNonPosInt(leaf) == leaf.k = "INT" /\ (leaf.v = "0" \/ (Len(leaf.v) > 0 /\ SubSeq(leaf.v, 1, 1) = "-"))
StaticBad(node) == \/ node.k = "register" /\ IsNonPosInt(node.c[2])
                   \/ node.k = "import"

\* finish the statement under construction (ps.cur) and add it to the current frame
Finish(ps) ==
  LET node == ps.cur
      isHdr == node.k \in HeaderKinds
  IN IF isHdr /\ ps.mode = "body" THEN DeadAt(ps, ps.s0)
     ELSE [AddItem(ps, node) EXCEPT !.st = "after", !.cur = NoWrap,
              !.static = ps.static \/ StaticBad(node),
              !.mode = IF Len(ps.stk) = 1 /\ ~isHdr THEN "body" ELSE ps.mode]

AddChild(ps, leaf) == [ps EXCEPT !.cur.c = Append(@, leaf)]

LetOrInt(tk) == tk.t \in {"INT", "ID"}
NumLeaf(tk) == Leaf(tk.t, tk.v)

Open(ps, kind, wrap) == [ps EXCEPT !.stk = Append(@, Frame(kind, wrap)), !.st = "open", !.cur = NoWrap]

BlockName(kind) == CASE kind = "seq" -> "sequential_block"
                     [] kind = "par" -> "parallel_block"
                     [] kind = "sub" -> "subcircuit_block"

Close(ps) ==
  LET d == Len(ps.stk)
      f == ps.stk[d]
      blk == IF f.kind = "sub" THEN Node("subcircuit_block", "", <<f.wrap>> \o f.items)
             ELSE IF f.kind = "branch" THEN Node("branch", "", f.items)      \* its items are the case statements
             ELSE Node(BlockName(f.kind), "", f.items)
      node == IF f.kind \in {"sub", "branch"} \/ f.wrap = NoWrap THEN blk
              ELSE [f.wrap EXCEPT !.c = Append(@, blk)]
      p == [ps EXCEPT !.stk = SubSeq(@, 1, d - 1)]
  IN [AddItem(p, node) EXCEPT !.st = "after", !.cur = NoWrap,
        !.mode = IF d - 1 = 1 THEN "body" ELSE ps.mode]

Begin(ps, st, node) == [ps EXCEPT !.st = st, !.cur = node, !.s0 = ps.n]

\* start of a statement in state "open"
StartStmt(ps, tk) ==
  LET kind == Top(ps).kind
      top == kind = "top"
      inseq == kind \in {"top", "seq", "sub"}
  IN IF kind = "branch"           \* inside branch { ... } only case statements:  'bits' : block
     THEN (IF tk.t = "BININT" THEN Begin(ps, "case1", Node("case", tk.v, <<>>)) ELSE Dead(ps))
     ELSE
     CASE tk.t = "branch" /\ top -> Begin(ps, "br1", Node("branch", "", <<>>))
       [] tk.t = "register" /\ top -> Begin(ps, "reg1", Node("register", "", <<>>))
       [] tk.t = "let" /\ top -> Begin(ps, "let1", Node("let", "", <<>>))
       [] tk.t = "map" /\ top -> Begin(ps, "map1", Node("map", "", <<>>))
       [] tk.t = "from" /\ top -> Begin(ps, "from1", Node("usepulses", "", <<>>))
       [] tk.t = "import" /\ top -> Begin(ps, "imp1", Node("import", "", <<>>))
       [] tk.t = "macro" /\ top -> Begin(ps, "macro1", Node("macro", "", <<>>))
       [] tk.t = "ID" -> Begin(ps, "gate", Node("gate", tk.v, <<>>))
       [] tk.t = "loop" /\ inseq -> Begin(ps, "loop1", Node("loop", "", <<>>))
       [] tk.t = "subcircuit" /\ inseq -> Begin(ps, "sub1", Leaf("empty", ""))
       [] tk.t = "{" /\ kind \in {"top", "par"} -> Open(ps, "seq", NoWrap)
       [] tk.t = "<" /\ inseq -> Open(ps, "par", NoWrap)
       [] OTHER -> Dead(ps)

\* a token arrives when the current statement may end here (gate / whole-register map)
EndThen(ps, tk) ==
  LET q == Finish(ps) IN
  IF q.verdict # "ok" THEN q
  ELSE IF IsSep(q, tk) THEN [q EXCEPT !.st = "open"]
  ELSE IF tk.t = Closer(q) /\ Len(q.stk) > 1 THEN Close(q)
  ELSE Dead(ps)

Step1(ps, tk) ==
  LET s == ps.st IN
  CASE s = "open" ->
         IF IsSep(ps, tk) THEN ps
         ELSE IF Len(ps.stk) > 1 /\ tk.t = Closer(ps) THEN Close(ps)
         ELSE StartStmt(ps, tk)
    [] s = "after" ->
         IF IsSep(ps, tk) THEN [ps EXCEPT !.st = "open"]
         ELSE IF Len(ps.stk) > 1 /\ tk.t = Closer(ps) THEN Close(ps)
         ELSE Dead(ps)
    \* register q [ n ]
    [] s = "reg1" -> IF tk.t = "ID" THEN [AddChild(ps, Leaf("ID", tk.v)) EXCEPT !.st = "reg2"] ELSE Dead(ps)
    [] s = "reg2" -> IF tk.t = "[" THEN [ps EXCEPT !.st = "reg3"] ELSE Dead(ps)
    [] s = "reg3" -> IF LetOrInt(tk) THEN [AddChild(ps, NumLeaf(tk)) EXCEPT !.st = "reg4"] ELSE Dead(ps)
    [] s = "reg4" -> IF tk.t = "]" THEN Finish(ps) ELSE Dead(ps)
    \* let a v
    [] s = "let1" -> IF tk.t = "ID" THEN [AddChild(ps, Leaf("ID", tk.v)) EXCEPT !.st = "let2"] ELSE Dead(ps)
    [] s = "let2" -> IF tk.t \in {"INT", "NUM"} THEN Finish(AddChild(ps, NumLeaf(tk))) ELSE Dead(ps)
    \* from m usepulses *
    [] s = "from1" -> IF tk.t \in {"ID", "DOTID"} THEN [AddChild(ps, Leaf("ID", tk.v)) EXCEPT !.st = "from2"] ELSE Dead(ps)
    [] s = "from2" -> IF tk.t = "usepulses" THEN [ps EXCEPT !.st = "from3"] ELSE Dead(ps)
    [] s = "from3" -> IF tk.t = "*" THEN Finish(AddChild(ps, Leaf("STAR", "*"))) ELSE Dead(ps)
    \* import a as b   (grammatical, always a static error)
    [] s = "imp1" -> IF tk.t = "ID" THEN [AddChild(ps, Leaf("ID", tk.v)) EXCEPT !.st = "imp2"] ELSE Dead(ps)
    [] s = "imp2" -> IF tk.t = "as" THEN [ps EXCEPT !.st = "imp3"] ELSE Dead(ps)
    [] s = "imp3" -> IF tk.t = "ID" THEN Finish(AddChild(ps, Leaf("ID", tk.v))) ELSE Dead(ps)
    \* map a b | map a b[i] | map a b[s:e:t]
    [] s = "map1" -> IF tk.t = "ID" THEN [AddChild(ps, Leaf("ID", tk.v)) EXCEPT !.st = "map2"] ELSE Dead(ps)
    [] s = "map2" -> IF tk.t = "ID" THEN [AddChild(ps, Leaf("ID", tk.v)) EXCEPT !.st = "map3"] ELSE Dead(ps)
    [] s = "map3" -> IF tk.t = "[" THEN [ps EXCEPT !.st = "map4"] ELSE EndThen(ps, tk)
    [] s = "map4" -> IF LetOrInt(tk) THEN [AddChild(ps, NumLeaf(tk)) EXCEPT !.st = "map5"]
                     ELSE IF tk.t = ":" THEN [AddChild(ps, Leaf("none", "")) EXCEPT !.st = "map6"] ELSE Dead(ps)
    [] s = "map5" -> IF tk.t = "]" THEN Finish(ps)             \* single index
                     ELSE IF tk.t = ":" THEN [ps EXCEPT !.st = "map6"] ELSE Dead(ps)
    [] s = "map6" -> \* after the first colon: stop | : | ]
                     IF LetOrInt(tk) THEN [AddChild(ps, NumLeaf(tk)) EXCEPT !.st = "map7"]
                     ELSE IF tk.t = ":" THEN [AddChild(ps, Leaf("none", "")) EXCEPT !.st = "map8"]
                     ELSE IF tk.t = "]" THEN Finish(AddChild(AddChild(ps, Leaf("none", "")), Leaf("none", "")))
                     ELSE Dead(ps)
    [] s = "map7" -> IF tk.t = ":" THEN [ps EXCEPT !.st = "map8"]
                     ELSE IF tk.t = "]" THEN Finish(AddChild(ps, Leaf("none", ""))) ELSE Dead(ps)
    [] s = "map8" -> IF LetOrInt(tk) THEN [AddChild(ps, NumLeaf(tk)) EXCEPT !.st = "map9"] ELSE Dead(ps)
    [] s = "map9" -> IF tk.t = "]" THEN Finish(ps) ELSE Dead(ps)
    \* gate name args...
    [] s \in {"gate", "gateI"} ->
         IF tk.t \in {"ID", "INT", "NUM"}
         THEN [AddChild(ps, NumLeaf(tk)) EXCEPT !.st = IF tk.t = "ID" THEN "gateI" ELSE "gate"]
         ELSE IF tk.t = "[" /\ s = "gateI" THEN [ps EXCEPT !.st = "gidx1"]
         ELSE EndThen(ps, tk)
    [] s = "gidx1" -> IF tk.t \in {"ID", "INT"} THEN
                         LET n == Len(ps.cur.c) IN
                         [ps EXCEPT !.cur.c[n] = Node("array_item", "", <<ps.cur.c[n], NumLeaf(tk)>>), !.st = "gidx2"]
                      ELSE Dead(ps)
    [] s = "gidx2" -> IF tk.t = "]" THEN [ps EXCEPT !.st = "gate"] ELSE Dead(ps)
    \* loop n block
    [] s = "loop1" -> IF LetOrInt(tk) THEN [AddChild(ps, NumLeaf(tk)) EXCEPT !.st = "loop2"] ELSE Dead(ps)
    [] s = "loop2" -> IF tk.t = "{" THEN Open(ps, "seq", ps.cur)
                      ELSE IF tk.t = "<" THEN Open(ps, "par", ps.cur) ELSE Dead(ps)
    \* macro name params... block
    [] s = "macro1" -> IF tk.t = "ID" THEN [AddChild(ps, Leaf("ID", tk.v)) EXCEPT !.st = "macro2"] ELSE Dead(ps)
    [] s = "macro2" -> IF tk.t = "ID" THEN AddChild(ps, Leaf("ID", tk.v))
                       ELSE IF tk.t = "{" THEN Open(ps, "seq", ps.cur)
                       ELSE IF tk.t = "<" THEN Open(ps, "par", ps.cur) ELSE Dead(ps)
    \* subcircuit [n] { ... }
    [] s = "sub1" -> IF LetOrInt(tk) THEN [ps EXCEPT !.cur = NumLeaf(tk), !.st = "sub2"]
                     ELSE IF tk.t = "{" THEN Open(ps, "sub", ps.cur) ELSE Dead(ps)
    [] s = "sub2" -> IF tk.t = "{" THEN Open(ps, "sub", ps.cur) ELSE Dead(ps)
    \* branch { 'bits' : block ; ... }     (top level only; experimental: grammatical, refused by the builder)
    [] s = "br1" -> IF tk.t = "{" THEN Open(ps, "branch", NoWrap) ELSE Dead(ps)
    [] s = "case1" -> IF tk.t = ":" THEN [ps EXCEPT !.st = "case2"] ELSE Dead(ps)
    [] s = "case2" -> IF tk.t = "{" THEN Open(ps, "seq", ps.cur)
                      ELSE IF tk.t = "<" THEN Open(ps, "par", ps.cur) ELSE Dead(ps)

\* One token.  Layout tokens other than NL are invisible to the grammar; a line comment must be
\* terminated by a newline (the renderer guarantees it, the enumeration machine guards it).
Step(ps, tk) ==
  IF ps.verdict # "ok" THEN [ps EXCEPT !.n = ps.n + 1]
  ELSE LET q == [ps EXCEPT !.n = ps.n + 1] IN
       IF tk.t \in LayoutKinds THEN q ELSE Step1(q, tk)

RECURSIVE FoldStep(_, _, _)
FoldStep(ps, toks, i) == IF i > Len(toks) THEN ps ELSE FoldStep(Step(ps, toks[i]), toks, i + 1)
PS(toks) == FoldStep(InitPS, toks, 1)

\* may the input end here?  (offending position = one past the last token = end of input)
AtEOF(ps) ==
  IF ps.verdict # "ok" THEN ps
  ELSE IF Len(ps.stk) # 1 THEN DeadAt(ps, ps.n + 1)
  ELSE IF ps.st \in {"open", "after"} THEN ps
  ELSE IF ps.st \in {"gate", "gateI", "map3"} THEN Finish(ps)
  ELSE DeadAt(ps, ps.n + 1)

Tree(ps) == Node("circuit", "", AtEOF(ps).stk[1].items)

\* Outcome class of a complete token string: "ok", "static" (grammatical but violating a constraint
\* the parser enforces itself: non-positive literal register size, import), or "syntax".
Outcome(toks) ==
  LET e == AtEOF(PS(toks)) IN
  \* (static: a static violation precedes the syntax error; the parser may report either, and a static
  \* violation carries no position requirement)
  IF e.verdict # "ok" THEN [v |-> "syntax", bad |-> e.bad, tree |-> NoWrap, static |-> e.static]
  ELSE IF e.static THEN [v |-> "static", bad |-> 0, tree |-> NoWrap, static |-> TRUE]
  ELSE [v |-> "ok", bad |-> 0, tree |-> Node("circuit", "", e.stk[1].items), static |-> FALSE]

\* a well-formed text with more than one register statement: grammatical (parse_to_sexpression returns its tree), refused
\* by the string entry point with a JaqalError ("too many registers")
TwoRegisters(toks) == LET o == Outcome(toks) IN
                      o.v = "ok" /\ Cardinality({ j \in DOMAIN o.tree.c : o.tree.c[j].k = "register" }) > 1

\* a well-formed text with a branch statement: the grammar accepts it (parse_to_sexpression returns its tree), the
\* builder refuses it with a JaqalError unless the experimental switch is on
Experimental(toks) == LET o == Outcome(toks) IN o.v = "ok" /\ \E j \in DOMAIN o.tree.c : o.tree.c[j].k = "branch"

-------------------------------------------------------------------------------
(* Spec-level theorems (checked by TLC on every enumerated token string).  *)

\* number of value-bearing leaves of a tree (identifiers, numbers, stars, gate names)
RECURSIVE Yield(_)
RECURSIVE YieldSeq(_)
YieldSeq(s) == IF s = <<>> THEN 0 ELSE Yield(Head(s)) + YieldSeq(Tail(s))
Yield(nd) == (IF nd.k \in {"ID", "INT", "NUM", "STAR"} \/ nd.k \in {"gate", "case"} THEN 1 ELSE 0) + YieldSeq(nd.c)
CountValueToks(toks) == Cardinality({i \in 1..Len(toks) : toks[i].t \in {"ID", "INT", "NUM", "DOTID", "*", "BININT"}})

\* no statement outside a comment is ever dropped
NoDropOf(toks) == AtEOF(PS(toks)).verdict = "ok" => Yield(Tree(PS(toks))) = CountValueToks(toks)

\* layout erasure: deleting comments/blanks, and writing every newline as the explicit separator of
\* the enclosing block, changes neither the verdict nor the tree
RECURSIVE FoldStepX(_, _, _)
FoldStepX(ps, toks, i) ==
  IF i > Len(toks) THEN ps
  ELSE LET tk == toks[i]
           tk2 == IF tk.t = "NL" /\ ps.verdict = "ok"
                  THEN (IF Top(ps).kind = "par" THEN Tok("|", "") ELSE Tok(";", ""))
                  ELSE tk
       IN IF tk.t \in LayoutKinds THEN FoldStepX(ps, toks, i + 1)
          ELSE FoldStepX(Step(ps, tk2), toks, i + 1)
LayoutEraseOf(toks) ==
  LET a == AtEOF(PS(toks))
      b == AtEOF(FoldStepX(InitPS, toks, 1))
  IN a.verdict = b.verdict /\ (a.verdict = "ok" => a.stk[1].items = b.stk[1].items)

\* viability is prefix closed: once dead, always dead; the offending index never moves
=============================================================================
