from . import execprops


def main(tier):
    return execprops.main('C15', tier)
