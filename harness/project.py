"""Projection: implementation objects -> the JSON AST of spec/JaqalSem.tla (DESIGN 4.1).

Trusted translation.  Case analysis is by `isinstance` only: every reference is projected by what the
object IS (Parameter / Constant / Register / NamedQubit), never by its printed name."""
import math

from jaqalpaq.core.constant import Constant
from jaqalpaq.core.parameter import Parameter, AnnotatedValue, ParamType
from jaqalpaq.core.register import Register, NamedQubit
from jaqalpaq.core.gate import GateStatement
from jaqalpaq.core.block import BlockStatement, LoopStatement
from jaqalpaq.core.macro import Macro
from jaqalpaq.core.gatedef import GateDefinition, BusyGateDefinition, IdleGateDefinition

NONE = {'k': 'none'}
SMALL = 2 ** 30


def num(x):
    if isinstance(x, bool):
        return {'k': 'other', 'v': repr(x)}
    if isinstance(x, int):
        small = abs(x) < SMALL
        return {'k': 'num', 't': 'int', 'v': str(x), 'cv': str(x), 'n': x if small else 0, 'i': small}
    if isinstance(x, float):
        if math.isfinite(x) and x == int(x):
            iv = int(x)
            small = abs(iv) < SMALL
            return {'k': 'num', 't': 'flt', 'v': repr(x), 'cv': str(iv), 'n': iv if small else 0, 'i': small}
        return {'k': 'num', 't': 'flt', 'v': repr(x), 'cv': repr(x), 'n': 0, 'i': False}
    return None


def ix(x):
    """index / size / bound / count expression"""
    if x is None:
        return NONE
    n = num(x)
    if n is not None:
        return n
    if isinstance(x, Constant):
        return {'k': 'let', 'v': str(x.name)}
    if isinstance(x, Parameter):
        return {'k': 'param', 'v': str(x.name)}
    if isinstance(x, AnnotatedValue):
        return {'k': 'param', 'v': str(x.name)}
    return {'k': 'other', 'v': repr(x)[:80]}


def base(x):
    if isinstance(x, Register):
        return {'k': 'reg', 'v': str(x.name)}
    if isinstance(x, AnnotatedValue) and not isinstance(x, Constant):
        return {'k': 'param', 'v': str(x.name)}
    if isinstance(x, NamedQubit):
        return {'k': 'qalias', 'v': str(x.name)}
    if isinstance(x, Constant):
        return {'k': 'let', 'v': str(x.name)}
    return {'k': 'other', 'v': repr(x)[:80]}


NORES = {'ok': False, 'reg': '', 'ix': 0}


def resolved(x):
    """what the object itself resolves to (NamedQubit.resolve_qubit), if it can be resolved without a
    macro context: the object-level fact behind a name (a reference may hang off a stale register)"""
    try:
        r, i = x.resolve_qubit()
        if isinstance(i, bool) or not isinstance(i, int) or abs(i) >= SMALL:
            return NORES
        return {'ok': True, 'reg': str(r.name), 'ix': i}
    except Exception:
        return NORES


def arg(x):
    if isinstance(x, NamedQubit):
        if '[' in str(x.name):
            return {'k': 'qubit', 'base': base(x.alias_from), 'idx': ix(x.alias_index), 'res': resolved(x)}
        return {'k': 'qalias', 'v': str(x.name), 'res': resolved(x)}
    if isinstance(x, Register):
        return {'k': 'reg', 'v': str(x.name)}
    r = ix(x)
    return r


def stmt(s, natives):
    if isinstance(s, GateStatement):
        gd = s.gate_def
        if isinstance(gd, Macro):
            cls = 'macro'
        elif str(s.name) in natives:
            cls = 'native'
        else:
            cls = 'anon'
        return {'k': 'gate', 'v': str(s.name), 'cls': cls, 'args': [arg(a) for a in s.parameters.values()]}
    if isinstance(s, LoopStatement):
        return {'k': 'loop', 'count': ix(s.iterations), 'body': stmt(s.statements, natives)}
    if isinstance(s, BlockStatement):
        return {'k': 'blk', 'par': bool(s.parallel), 'sub': bool(s.subcircuit), 'iters': ix(s.iterations),
                'body': [stmt(x, natives) for x in s.statements]}
    return {'k': 'otherstmt', 'v': type(s).__name__}


def reg(r):
    out = {'k': 'reg', 'v': str(r.name), 'size': NONE, 'src': '', 'mode': '', 'idx': NONE,
           'start': NONE, 'stop': NONE, 'step': NONE}
    if isinstance(r, NamedQubit):
        out.update(k='alias', src=str(getattr(r.alias_from, 'name', '?')), mode='index', idx=ix(r.alias_index))
        return out
    if r.fundamental:
        out['size'] = ix(r._size)
        return out
    out.update(k='alias', src=str(getattr(r.alias_from, 'name', '?')))
    if r.alias_slice is None:
        out['mode'] = 'whole'
    else:
        sl = r.alias_slice
        out.update(mode='slice', start=ix(sl.start), stop=ix(sl.stop), step=ix(sl.step))
    return out


KIND = {ParamType.QUBIT: 'qubit', ParamType.FLOAT: 'float', ParamType.REGISTER: 'register',
        ParamType.INT: 'int', ParamType.NONE: 'none'}


def native(g):
    if isinstance(g, BusyGateDefinition):
        cls = 'busy'
    elif isinstance(g, IdleGateDefinition):
        cls = 'idle'
    else:
        cls = 'native'
    return {'v': str(g.name), 'kinds': [KIND.get(p.kind, 'none') for p in g.parameters], 'cls': cls,
            'unitary': getattr(g, '_ideal_unitary', None) is not None}


def circuit(c):
    natives = {str(k) for k in c.native_gates}
    return {
        'lets': [{'v': str(k.name), 'val': num(k.value) or ix(k.value)} for k in c.constants.values()],
        'regs': [reg(r) for r in c.registers.values()],
        'macros': [{'v': str(m.name), 'params': [str(p.name) for p in m.parameters], 'body': stmt(m.body, natives)}
                   for m in c.macros.values()],
        'imports': [str(u.module) for u in c.usepulses],
        'natives': [native(g) for g in c.native_gates.values()],
        'body': [stmt(s, natives) for s in c.body.statements],
    }
