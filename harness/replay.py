"""./check Cxx --replay <file>: re-execute the recorded case against the current tree where the case carries its input
(program text, token list, history), re-validate it with the same trace specification, and print the verdict.
Exit 1 (with a VIOLATION line) if the recorded clause still fails, 0 if it no longer does."""
import json
import os

from . import core, impl, passes, execprops, c02

MODULE_OF_SITE = {
    'parse': 'Conform_Pass', 'expand_macros': 'Conform_Pass', 'expand_macros_preserve': 'Conform_Pass',
    'fill_in_let': 'Conform_Pass', 'fill_in_map': 'Conform_Pass', 'expand_subcircuits': 'Conform_Pass',
    'unit_timing': 'Conform_Pass', 'run': 'Conform_Exec', 'outparse': 'Conform_Exec', 'used': 'Conform_Exec',
    'explicit': 'Conform_Exec', 'rerun': 'Conform_Exec', 'tree': 'Conform_Lib', 'commute': 'Conform_Lib', 'flags': 'Conform_Lib',
    'shared': 'Conform_Lib', 'text': 'Conform_RT', 'builder': 'Conform_RT', 'pair': 'Conform_RT', 'pipeline': 'Conform_Valid',
    'call': 'Conform_GateDef', 'variants': 'Conform_GateDef', 'front': 'Conform_Front', 'history': 'Conform_Process',
    'chars': 'Conform_Lex',
}


def main(prop, path):
    impl.guard_repo()
    d = json.load(open(path))
    case, site, clause = d['case'], d['site'], d['clause']
    wd = core.workdir('replay')
    module = MODULE_OF_SITE.get(site)
    if prop == 'C02' and site == 'parse':
        module = 'Conform_Parse'
    if prop == 'C16' and site == 'text':
        module = 'Conform_Text'
    fresh = None
    how = 're-validated the recorded observation (this case kind is not re-executed)'
    try:
        if module == 'Conform_Parse' and 'toks' in case:
            fresh = c02.run_case({'id': case['id'], 'toks': case['toks'], 'mode': 'spaced'})
        elif module == 'Conform_Pass' and site != 'parse' and isinstance(case.get('text'), str):
            natives = bool(case['inp']['natives'])
            prog = dict(passes.EMPTY_PROG, natives=passes.exact_natives() if natives else [])
            out = passes.run_program({'id': 'replay', 'prog': prog, 'text': case['text'], 'sites': [(site, case['ovr'])]})
            fresh = [c for c in out if c['site'] == site][0]
            fresh['id'] = case['id']
        elif module == 'Conform_Exec' and site in ('run', 'outparse', 'used', 'rerun') and isinstance(case.get('text'), str):
            natives = bool(case['inp']['natives'])
            prog = dict(passes.EMPTY_PROG, natives=passes.exact_natives() if natives else [])
            out = execprops.run_exec({'id': 'replay', 'prog': prog, 'text': case['text'], 'nv': len(case.get('outs', [])),
                                      'nq': 2, 'sites': (site,), 'seed': 1})
            fresh = [c for c in out if c['site'] == site][0]
            fresh['id'] = case['id']
            if site == 'outparse':
                fresh = None          # the output list is part of the case; keep the recorded one
    except Exception as e:      # noqa
        print('replay: could not re-execute (%s: %s); re-validating the recorded observation' % (type(e).__name__, e))
        fresh = None
    if fresh is not None:
        case = fresh
        how = 're-executed on the current tree'
    if module is None:
        print('replay: unknown site %r' % site)
        return 2
    verdicts, _ = core.validate(module, [case], wd)
    core.cleanup('replay')
    got = verdicts.get(case['id'], {}).get('clauses', [])
    print('replay %s %s/%s: %s; failing clauses now: %s' % (prop, site, clause, how, got))
    if clause in got:
        print('VIOLATION property=%s replay=%s' % (prop, os.path.abspath(path)))
        return 1
    return 0
