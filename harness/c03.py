from . import execprops


def main(tier):
    return execprops.main('C03', tier)
