"""C16 - failures are JaqalErrors with a position; no crashes, hangs or sticky state.

(a) inputs: character strings enumerated by TLC (LexEnum), token strings (ParseEnum) and mutated example files go
    through parse_jaqal_string and run_jaqal_string under a CPU watchdog; TLC (Conform_Text) classifies each text
    with the spec's own lexer and grammar and validates exception type, position and termination.
(b) histories: TLC enumerates every history of the JaqalProcess machine (pool of 8 texts: valid, three kinds of
    syntax error, a semantic error, a static error, a missing and a present pulse module; importlib.util
    pre-imported or not); EACH history is replayed in a fresh interpreter and TLC (Conform_Process) validates
    that every outcome is the outcome of its text as first call of a fresh process."""
import glob
import json
import os
import random
import subprocess
import concurrent.futures as cf

from . import core, impl, tlaval, render

PROP = 'C16'
PULSES = os.path.join(core.ROOT, 'harness', 'pulses')
POOL = [
    'register q[2]\ng q[0]\n',
    'register q[2]\ng q[0\nh q[1]\n',
    '{ g',
    'register q[2]\ng q[0] $\n',
    'let a 1\ng a[0]\n',
    'register q[0]\n',
    'from .nosuchmodule usepulses *\nregister q[1]\n',
    'from .vpulses usepulses *\nregister q[2]\nprepare_all\nX q[0]\nmeasure_all\n',
    # 9, 10: the same value as a float in one text and as an integer (register size, slice bound, loop count) in another
    'register q[2]\ng q[0] 4.0\n',
    'register r[4]\nmap a r[1:4]\nloop 4 {\ng a[0]\n}\n',
    # 11, 12: a macro call in one text; the very same statement in another text where no such macro or gate exists
    'from .vpulses usepulses *\nregister q[2]\nmacro flip a { X a }\nprepare_all\nflip q[0]\nmeasure_all\n',
    'from .vpulses usepulses *\nregister q[2]\nprepare_all\nflip q[0]\nmeasure_all\n',
]
EDGE = {'NUM': ['1.0e400', '-2.5e999', '1.5e-400', '-.0', '+.5', '0.1E+5'],
        'INT': ['99999999999999999999999', '-0', '+2', '0002', '-36893488147419103232', '9' * 5000]}   # (Python converts at most 4300 digits)
PROC_CFG = 'SPECIFICATION Spec\nCONSTANTS\n MaxLen = %d\nINVARIANT HistoryIndependent\nINVARIANT Emit\n'


def child(args):
    util, texts = args
    env = dict(os.environ, PYTHONPATH=os.environ.get('VERIF_REPO_SRC', '/repo/src'))
    path = os.path.join(core.WORK, PROP, 'hist_%d_%s.json' % (int(util), '_'.join(str(t) for t in texts)))
    with open(path, 'w') as fh:
        json.dump([POOL[t - 1] for t in texts], fh)
    p = subprocess.run(['/venv/bin/python', os.path.join(core.ROOT, 'harness', 'proc_child.py'), '1' if util else '0', PULSES, path],
                       cwd='/tmp', env=env, capture_output=True, text=True, timeout=120)
    for line in p.stdout.splitlines():
        if line.startswith('OUTS '):
            return json.loads(line[5:])
    return []


def histories_stage(rep, tier, wd, rng):
    maxlen = 3 if tier == 'quick' else 4
    res = core.run_tlc('JaqalProcess', PROC_CFG % maxlen, wd)
    rep.add_model_check('JaqalProcess[MaxLen=%d] HistoryIndependent' % maxlen, res)
    hs = set()
    for line in res['out'].splitlines():
        if line.startswith('<<"PHIST", '):
            d = json.loads(json.loads(line[len('<<"PHIST", '):].rstrip()[:-2]))
            if d['texts']:
                hs.add((d['util'], tuple(d['texts'])))
    hs = sorted(hs)
    # every history of length <= 2 is replayed (every ordered pair of texts); longer ones are sampled in the quick tier
    singles = [h for h in hs if len(h[1]) == 1] + [h for h in hs if len(h[1]) == 2 and not h[0]]
    rest = [h for h in hs if len(h[1]) > 2 or (len(h[1]) == 2 and h[0])]
    budget = 160 if tier == 'quick' else min(len(rest), 6000)
    if len(rest) > budget:
        rest = rng.sample(rest, budget)
        rep.cov['exhaustive'] = False
    todo = singles + rest
    with cf.ThreadPoolExecutor(max_workers=core.NCPU) as ex:
        outs = list(ex.map(child, todo))
    first = {(u, t[0]): o[0] if o else {'cls': 'missing', 'pos': 'none', 'digest': ''} for (u, t), o in zip(todo, outs) if len(t) == 1}
    cases = []
    for n, ((u, t), o) in enumerate(zip(todo, outs)):
        cases.append({'id': 'hist/%d' % n, 'util': u, 'texts': list(t), 'outs': o, 'first': [first[(u, x)] for x in t],
                      'text': 'importlib.util preloaded=%s; texts %s' % (u, [POOL[x - 1] for x in t])})
    verdicts, stats = core.validate('Conform_Process', cases, wd, shard_size=2000)
    rep.add_validation('history', cases, verdicts, stats)
    rep.cov['process_histories_replayed'] = len(cases)
    return cases, verdicts


def observe_text(c):
    from jaqalpaq.parser import parse_jaqal_string
    from jaqalpaq.run import run_jaqal_string
    text = c['src']
    out = {'id': c['id'], 'text': [min(ord(ch), 255) for ch in text], 'src': text}
    auto = 'usepulses' in text and 'vpulses' in text       # texts that name the pulse fixture are executable
    for key, fn in (('parse', lambda: parse_jaqal_string(text, autoload_pulses=auto, import_path=PULSES)),
                    ('run', lambda: run_jaqal_string(text, import_path=PULSES))):
        r, e = impl.with_cpu_limit(fn, seconds=3)
        o = {'cls': 'ok', 'eof': False, 'off': -1, 'haspos': False}
        if e is not None:
            o['cls'] = 'timeout' if isinstance(e, impl.Timeout) else impl.classify_exc(e)
            if o['cls'] == 'parse_error':
                o['eof'], o['off'] = impl.pos_to_offset(text, getattr(e, 'line', None), getattr(e, 'column', None))
                o['haspos'] = bool(o['eof'] or o['off'] >= 0)
        out[key] = o
    # the caller's own gate-set dictionary, shared by every text this worker process handles: what a text does with it
    # must be what it does with a fresh copy, and the dictionary must come back unchanged
    from . import gates
    _shared_gates()
    fresh = gates.exact_gates()
    _, e1 = impl.with_cpu_limit(lambda: parse_jaqal_string(text, inject_pulses=_SHARED, autoload_pulses=False), seconds=3)
    _, e2 = impl.with_cpu_limit(lambda: parse_jaqal_string(text, inject_pulses=fresh, autoload_pulses=False), seconds=3)
    cls = lambda e: 'ok' if e is None else ('timeout' if isinstance(e, impl.Timeout) else impl.classify_exc(e))
    out['shared'] = {'cls': cls(e1), 'fresh_cls': cls(e2), 'unchanged': sorted(_SHARED) == sorted(fresh) and all(type(_SHARED[k]) is type(fresh[k]) for k in fresh)}
    return out


_SHARED = None


def _shared_gates():
    global _SHARED
    if _SHARED is None:
        from . import gates
        _SHARED = gates.exact_gates()
    return _SHARED


def mutate(text, rng):
    ops = rng.randint(1, 3)
    s = text
    alphabet = 'aq0 1.{}<>[]|;:\n$*/-+\'"#loopsubcircuitmacro'
    for _ in range(ops):
        if not s:
            break
        p = rng.randrange(len(s))
        r = rng.random()
        if r < 0.34:
            s = s[:p] + s[p + 1:]
        elif r < 0.67:
            s = s[:p] + rng.choice(alphabet) + s[p:]
        else:
            q = rng.randrange(p, min(len(s), p + 12))
            s = s[:p] + s[q:]
    return s


def texts_stage(rep, tier, wd, rng):
    srcs = []
    # (1) character strings from the LexEnum machine
    chars, maxlen = ('GeneralChars', 3) if tier == 'quick' else ('GeneralChars', 4)
    dump = os.path.join(wd, 'lexdump')
    res = core.run_tlc('LexEnum', 'SPECIFICATION Spec\nCONSTANTS\n Chars <- %s\n MaxChars = %d\n' % (chars, maxlen), wd, dump=dump)
    rep.add_model_check('LexEnum[%s,MaxChars=%d]' % (chars, maxlen), res)
    for st in tlaval.read_dump(dump + '.dump'):
        srcs.append(''.join(chr(x) for x in st['text']))
    os.remove(dump + '.dump')
    # (2) token strings from the ParseEnum machine
    from . import c02
    dump = os.path.join(wd, 'parsedump')
    res = core.run_tlc('ParseEnum', c02.cfg_text('GrammarAlphabet', 'PastSet', 4 if tier == 'quick' else 5), wd, dump=dump)
    rep.add_model_check('ParseEnum[grammar]', res)
    nvar = 0
    for st in tlaval.read_dump(dump + '.dump'):
        srcs.append(render.render_tokens(st['toks'])[0])
        # (2b) the same token string with every numeric literal respelled at the edge of its token class
        # (overflowing / underflowing floats, signed zero, leading zeros, integers beyond 64 bits)
        if any(t['t'] in ('NUM', 'INT') for t in st['toks']):
            for _ in range(2):
                alt = [dict(t, v=rng.choice(EDGE[t['t']])) if t['t'] in EDGE else t for t in st['toks']]
                srcs.append(render.render_tokens(alt)[0])
                nvar += 1
    rep.cov['edge_literal_variants'] = nvar
    os.remove(dump + '.dump')
    # (3) mutated example files and the history pool
    corpus = [open(f).read()[:400] for f in sorted(glob.glob('/repo/examples/jaqal/**/*.jaqal', recursive=True))] + POOL
    for n in range(1200 if tier == 'quick' else 20000):
        srcs.append(mutate(rng.choice(corpus), rng))
    # (4) executable programs (gate definitions through a usepulses statement) with loop counts at the edge: negative
    # literal, negative constant, zero, around prepare / measure events
    from . import passes
    progs = passes.enumerate_programs(rep, 'edge-loops', passes.ast_cfg('H_N', 'M_E0', 'T_N', 'O_N', 4, 3, invariants=()), wd,
                                      budget=2500 if tier == 'quick' else 30000)
    rep.cov['executable_edge_loop_programs'] = len(progs)
    for p in progs:
        srcs.append(render.render_prog(p))
    # (5) nesting far beyond what any program needs: 200 and 2000 levels of alternating blocks, 300 nested loops
    for n in (100, 400):
        srcs.append('register q[1]\n' + '{<' * n + 'g q[0]' + '>}' * n + '\n')
    srcs.append('register q[1]\n' + 'loop 1 {' * 300 + 'g q[0]' + '}' * 300 + '\n')
    # (6) a block comment that is never closed, with a long tail (input that ends too early, inside a comment)
    for tail in ('a remark that nobody ever closed, followed by the rest of the file\nregister q[2]\ng q[0]\n', 'x' * 60, 'stars * inside * the remark ' * 3):
        srcs.append('register q[1]\n/* ' + tail)
        srcs.append('g q[0] /*' + tail)
    srcs = sorted(set(s for s in srcs if all(ord(ch) < 256 for ch in s)))
    cases = [{'id': 'text/%d' % n, 'src': s} for n, s in enumerate(srcs)]
    # witnesses of known findings (open and fixed) are replayed like any other text
    wit = [f for f in rep.findings if f['site'] == 'text' and 'text' in f.get('witness', {})]
    cases += [{'id': 'witness/' + f['id'], 'src': f['witness']['text']} for f in wit]
    recs = core.pool_map(observe_text, cases, chunksize=200)
    verdicts, stats = core.validate('Conform_Text', recs, wd, shard_size=1500)
    for f in wit:
        rep.witness(f['id'], f['clause'] in verdicts.get('witness/' + f['id'], {}).get('clauses', []))
    rep.add_validation('text', [dict(r, text=r['src']) for r in recs], verdicts, stats)
    rep.cov['texts'] = len(recs)
    return recs, verdicts


def main(tier):
    impl.guard_repo()
    rep = core.Report(PROP, tier)
    rng = random.Random(core.seed())
    wd = core.workdir(PROP)
    hcases, hv = histories_stage(rep, tier, wd, rng)
    rep.phase('histories')
    trecs, tv = texts_stage(rep, tier, wd, rng)
    rep.phase('texts')
    rep.cov['rule'] = ('(a) every character string of LexEnum, every token string of ParseEnum and mutated example files through '
                       'parse_jaqal_string and run_jaqal_string; (b) every history of the JaqalProcess machine, each in a fresh '
                       'interpreter, with and without importlib.util pre-imported; non-trivial = histories of length >= 2 plus '
                       'texts the spec classifies as erroneous')
    rep.cov['distinct_nontrivial'] = sum(1 for c in hcases if len(c['texts']) >= 2) + sum(1 for r in trecs if r['parse']['cls'] != 'ok')
    rep.cov.setdefault('exhaustive', True)
    rep.sample({'history': hcases[-1]['text'], 'outcomes': hcases[-1]['outs'], 'failing_clauses': hv.get(hcases[-1]['id'], {}).get('clauses', [])})
    rep.sample({'text': trecs[len(trecs) // 2]['src'], 'parse': trecs[len(trecs) // 2]['parse'], 'run': trecs[len(trecs) // 2]['run']})
    rep.assumptions += ['semantic (non-syntactic) errors are only required to be JaqalErrors; which texts are semantically valid is '
                        'not decided here (C14 does that for enumerated programs)']
    core.cleanup(PROP)
    return rep.finish()
