"""C18 - gate definitions check calls; idle and stretched variants act as specified.

spec -> code: TLC enumerates the GateCallEnum machine (every signature of <= MaxParams parameters over the five
kinds, every argument list over the 14 value classes, also too long / too short); the harness builds a real
GateDefinition and real argument objects and calls it positionally, by keyword, and with broken keyword sets.
code -> spec: TLC (Conform_GateDef) validates acceptance against JaqalGateDef!CallOK, the exception types, and
positional/keyword agreement; for the exact gate family it validates the derived idle gates and the matrices of
stretched gates against JaqalExec!Mat."""
import json
import random

import numpy

from . import core, impl, gates, execrun

PROP = 'C18'
CONF = {'quick': (2, 1, '{"int", "qubit", "other"}'), 'thorough': (3, 1, '{"int", "qubit", "float"}')}
KINDNAME = {'qubit': 'QUBIT', 'register': 'REGISTER', 'int': 'INT', 'float': 'FLOAT', 'none': None}


def make_value(cls, rep=0):
    """a representative of a value class; `rep` selects among several representatives of the same class (the
    specification decides by class, so every representative must get the same verdict): the edges of the class -
    zero, negative, integers beyond the range of a double, floats beyond the range of an int, infinities, NaN"""
    from jaqalpaq.core.register import Register
    from jaqalpaq.core.constant import Constant
    from jaqalpaq.core.parameter import Parameter, ParamType
    r = Register('r', 3)
    pool = {
        'qubit': [lambda: r[1], lambda: r[0]], 'register': [lambda: r, lambda: Register('s', alias_from=r, alias_slice=slice(0, 2, 1))],
        'int': [lambda: 3, lambda: 10 ** 400, lambda: -(2 ** 1024), lambda: 0],
        'ifloat': [lambda: 2.0, lambda: 1e300, lambda: -0.0],
        'float': [lambda: 1.5, lambda: float('inf'), lambda: float('nan'), lambda: 5e-324],
        # (third representatives: a constant defined by another constant - the API allows Constant(name, Constant))
        'let_int': [lambda: Constant('c', 2), lambda: Constant('c', 10 ** 400), lambda: Constant('d', Constant('c', 2))],
        'let_ifloat': [lambda: Constant('c', 2.0), lambda: Constant('c', 1e300), lambda: Constant('d', Constant('c', 2.0))],
        'let_float': [lambda: Constant('c', 1.5), lambda: Constant('c', float('inf')), lambda: Constant('d', Constant('c', 1.5))],
        'param_none': [lambda: Parameter('p', None)], 'param_qubit': [lambda: Parameter('p', ParamType.QUBIT)],
        'param_register': [lambda: Parameter('p', ParamType.REGISTER)], 'param_int': [lambda: Parameter('p', ParamType.INT)],
        'param_float': [lambda: Parameter('p', ParamType.FLOAT)], 'other': [lambda: 'text', lambda: None, lambda: [1]],
    }[cls]
    return pool[rep % len(pool)]()


def outcome(fn):
    r, e = impl.with_cpu_limit(fn)
    if e is None:
        return {'cls': 'ok'}, r
    return {'cls': 'timeout' if isinstance(e, impl.Timeout) else impl.classify_exc(e), 'msg': str(e)[:120]}, None


def run_call(job):
    from jaqalpaq.core.gatedef import GateDefinition
    from jaqalpaq.core.parameter import Parameter, ParamType
    sig, args = job['sig'], job['args']
    names = ['x%d' % j for j in range(len(sig))]
    params = [Parameter(n, getattr(ParamType, KINDNAME[k]) if KINDNAME[k] else None) for n, k in zip(names, sig)]
    gd = GateDefinition('gg', params)
    vals = [make_value(c, job.get('rep', 0)) for c in args]
    pos, gp = outcome(lambda: gd(*vals))
    skipped = {'cls': 'skipped'}
    kw, gk, missing, unknown, mixed = skipped, None, skipped, skipped, skipped
    if len(args) == len(sig) and len(args) > 0:
        kw, gk = outcome(lambda: gd(**dict(zip(names, vals))))
        # keyword arguments may be written in any order: the reversed order must give the same statement
        kw2, gk2 = outcome(lambda: gd(**dict(reversed(list(zip(names, vals))))))
        if kw['cls'] == 'ok' and (kw2['cls'] != 'ok' or gk2 != gk or list(gk2.parameters.items()) != list(gk.parameters.items())):
            gk = None
        missing, _ = outcome(lambda: gd(**dict(list(zip(names, vals))[:-1])) if len(args) > 1 else gd(**{'zz': vals[0]}))
        unknown, _ = outcome(lambda: gd(**dict(list(zip(names, vals)) + [('zz', 1)])))
        mixed, _ = outcome(lambda: gd(vals[0], **dict(list(zip(names, vals))[1:])) if len(args) > 1 else gd(vals[0], zz=1))
    same = bool(gp is not None and gk is not None and gp == gk and list(gp.parameters.items()) == list(gk.parameters.items()))
    return {'id': job['id'], 'kind': 'call', 'sig': sig, 'args': args, 'pos': pos, 'kw': kw, 'same': same,
            'missing': missing, 'unknown': unknown, 'mixed': mixed, 'text': 'gate(%s)(%s) representatives #%d: %s' % (', '.join(sig), ', '.join(args), job.get('rep', 0), [repr(v)[:40] for v in vals])}


def variant_cases():
    """idle and stretched variants of the exact gate family"""
    from jaqalpaq.core.gatedef import add_idle_gates, IdleGateDefinition
    from jaqalpaq.core.stretch import stretched_gates
    from . import project
    cases = []
    base = dict(gates.busy_gates())
    base.update(gates.active_gates())
    withidle = add_idle_gates(base)
    for name, g in base.items():
        idle = withidle.get('I_' + name)
        c = {'id': 'idle/' + name, 'kind': 'idle', 'name': name, 'has': idle is not None, 'kinds': [], 'parent_kinds': project.native(g)['kinds'],
             'uses_qubits': False, 'unitary': False, 'text': 'add_idle_gates: ' + name}
        if idle is not None:
            c['kinds'] = project.native(idle)['kinds']
            c['uses_qubits'] = len(list(idle.used_qubits)) > 0
            c['unitary'] = idle.ideal_unitary is not None
        cases.append(c)
    # stretched_gates over a set that already contains the idle gates (update=True returns the merged set)
    o, comb = outcome(lambda: stretched_gates(add_idle_gates(dict(base)), suffix='_st', update=True))
    for name, g in base.items():
        if 'I_' + name not in withidle:
            continue
        sg = comb.get(name + '_st') if comb else None
        ig = comb.get('I_' + name + '_st') if comb else None
        cases.append({'id': 'idle_st/' + name, 'kind': 'idle_st', 'name': name, 'has': ig is not None, 'has_stretched': sg is not None,
                      'kinds': project.native(ig)['kinds'] if ig is not None else [], 'parent_kinds': project.native(sg)['kinds'] if sg is not None else [],
                      'base_kinds': project.native(g)['kinds'], 'uses_qubits': bool(ig is not None and len(list(ig.used_qubits)) > 0),
                      'unitary': bool(ig is not None and ig.ideal_unitary is not None), 'text': 'stretched_gates(add_idle_gates): ' + name})
    # a definition that has already been called is stretched, and the stretched definition is called: positional and
    # keyword calls with well-typed arguments (stretch factor last) must both be accepted and agree
    from jaqalpaq.core.register import Register
    reg = Register('r', 4)
    for name, g in gates.active_gates().items():
        vals, nq = [], 0
        for p in g.parameters:
            if p.kind.name == 'QUBIT':
                vals.append(reg[nq])
                nq += 1
            else:
                vals.append(2 if p.kind.name == 'INT' else 1.5)
        first, _ = outcome(lambda: g(*vals))
        o2, st2 = outcome(lambda: stretched_gates({name: g}, suffix='_st'))
        sg = st2.get(name + '_st') if st2 else None
        c = {'id': 'stretch_call/' + name, 'kind': 'stretch_call', 'name': name, 'parent_call': first['cls'], 'has': sg is not None,
             'pos': {'cls': 'missing'}, 'kw': {'cls': 'missing'}, 'same': False, 'short': {'cls': 'missing'},
             'text': 'call %s positionally, stretch it, call %s_st' % (name, name)}
        if sg is not None:
            names = [p.name for p in sg.parameters]
            c['pos'], gp = outcome(lambda: sg(*(vals + [0.5])))
            c['kw'], gk = outcome(lambda: sg(**dict(zip(names, vals + [0.5]))))
            c['short'], _ = outcome(lambda: sg(*vals))            # the parent's argument list: one argument too few
            c['same'] = bool(gp is not None and gk is not None and gp == gk)
        cases.append(c)
    active = gates.active_gates()
    o, st = outcome(lambda: stretched_gates(active, suffix='_st'))
    for name, g in active.items():
        ncl = sum(1 for p in g.parameters if p.kind.name in ('INT', 'FLOAT'))
        for cargs in ([[]] if ncl == 0 else [[1], [2], [3]]):
            for factor in (0.5, 2.0):
                c = {'id': 'stretch/%s/%s/%s' % (name, cargs, factor), 'kind': 'stretch', 'name': name, 'cargs': cargs, 'factor': factor,
                     'kinds': [], 'parent_kinds': project.native(g)['kinds'], 'cls': 'missing', 'exact': False, 'k': 0, 'm': [],
                     'text': 'stretched_gates: %s%s stretch=%s' % (name, cargs, factor)}
                sg = st.get(name + '_st') if st else None
                if sg is not None:
                    c['kinds'] = project.native(sg)['kinds']
                    if sg.ideal_unitary is None:
                        c['cls'] = 'none'
                    else:
                        oo, m = outcome(lambda: sg.ideal_unitary(*(list(cargs) + [factor])))
                        c['cls'] = oo['cls']
                        if m is not None:
                            m = numpy.asarray(m)
                            ok, k, flat = execrun.exact(m.reshape(-1))
                            d = m.shape[0]
                            c.update(exact=ok, k=k, m=[flat[r * d:(r + 1) * d] for r in range(d)])
                cases.append(c)
    return cases


def main(tier):
    impl.guard_repo()
    rep = core.Report(PROP, tier)
    wd = core.workdir(PROP)
    maxp, extra, argcls = CONF[tier]
    cfg = ('SPECIFICATION Spec\nCONSTANTS\n MaxParams = %d\n MaxExtra = %d\n ArgClasses <- ArgCls\nINVARIANT Emit\nINVARIANT UntypedAcceptsAll\n'
           % (maxp, extra))
    with open(core.SPEC + '/GateCallMC.tla', 'w') as fh:
        fh.write('---- MODULE GateCallMC ----\nEXTENDS GateCallEnum\nArgCls == %s\n====\n' % argcls)
    res = core.run_tlc('GateCallMC', cfg, wd)
    rep.add_model_check('GateCallEnum[MaxParams=%d] UntypedAcceptsAll' % maxp, res)
    jobs = []
    seen = set()
    for line in res['out'].splitlines():
        if line.startswith('<<"CALL", ') and line not in seen:
            seen.add(line)
            d = json.loads(json.loads(line[len('<<"CALL", '):].rstrip()[:-2]))
            for rp in range(4):
                jobs.append({'id': 'call/%d/rep%d' % (len(seen), rp), 'sig': d['sig'], 'args': d['args'], 'rep': rp})
    rep.phase('tlc_enumeration')
    recs = core.pool_map(run_call, jobs, chunksize=500)
    vrecs = variant_cases()
    rep.phase('replay')
    verdicts, stats = core.validate('Conform_GateDef', recs + vrecs, wd, shard_size=8000)
    rep.phase('tlc_validation')
    ids = {r['id'] for r in recs}
    rep.add_validation('call', recs, {k: v for k, v in verdicts.items() if k in ids}, stats)
    rep.add_validation('variants', vrecs, {k: v for k, v in verdicts.items() if k not in ids}, {'states': 0, 'transitions': 0})
    rep.cov['rule'] = ('every signature of <= %d parameters over 5 kinds x every argument list over 14 value classes (incl. one '
                       'argument too many / too few), positional, keyword and broken-keyword calls; idle and stretched variants of '
                       'every gate of the exact family; non-trivial = distinct (signature, argument list) pairs with >= 1 typed '
                       'parameter' % maxp)
    rep.cov['distinct_nontrivial'] = len({(tuple(j['sig']), tuple(j['args'])) for j in jobs if any(k != 'none' for k in j['sig'])})
    rep.cov['exhaustive'] = True
    for r in (recs[len(recs) // 3], recs[-1], vrecs[0], vrecs[-1]):
        rep.sample({'case': r['text'], 'failing_clauses': verdicts.get(r['id'], {}).get('clauses', [])})
    rep.assumptions += ['argument objects built by harness/c18.py make_value are representatives of their value class',
                        'stretched matrices converted to exact form with tolerance 1e-9']
    core.cleanup(PROP)
    return rep.finish()
