"""Executable properties C03, C08, C12, C13, C15 (and the dynamic half of C09) share one driver:
TLC (ExecEnum = AstEnum + JaqalExec) enumerates programs and emits, with each, the number of visits
the specification expects; the harness runs run_jaqal_circuit (hooks H1-H3 on) and
parse_jaqal_output_list on a matching output list, records everything observable, and TLC
(Conform_Exec) validates the record against the execution semantics."""
import json
import random

import numpy

from . import core, passes, impl, render, execrun, project, gates

CONF = {
    'struct': dict(quick=[('struct', ('H_E', 'M_E0', 'T_E', 'O_E', 3, 3), 5000), ('struct-macro', ('H_E', 'M_E1', 'T_E1', 'O_E', 2, 3), 2000),
                          ('brackets-deep', ('H_E', 'M_E0', 'T_PM', 'O_PM', 6, 4), 4000, (1500, 30)),
                          ('loops-only', ('H_E', 'M_E0', 'T_PM', 'O_L02', 6, 3), 6000),
                          ('struct-deep', ('H_E', 'M_E1', 'T_E1', 'O_E', 7, 4), 2500, (1000, 40)),
                          ('struct-macro-ovr', ('H_E', 'M_E2', 'T_E1', 'O_E0', 2, 4), 1500),
                          ('struct-one-ovr', ('H_E1', 'M_E1', 'T_E1', 'O_E0', 3, 3), 1200),
                          ('loops-sub', ('H_E', 'M_E0', 'NoGates', 'O_LS', 7, 4), 16000)],
                   thorough=[('struct', ('H_E', 'M_E0', 'T_E', 'O_E', 5, 4), 120000), ('struct-macro', ('H_E', 'M_E1', 'T_E1', 'O_E', 4, 3), 60000),
                             ('brackets', ('H_E', 'M_E0', 'T_PM', 'O_PM', 6, 4), 150000),
                             ('loops-only', ('H_E', 'M_E0', 'T_PM', 'O_L02', 7, 4), 100000),
                             ('struct-deep', ('H_E', 'M_E1', 'T_E1', 'O_E', 9, 5), 60000, (20000, 50)),
                             ('struct-macro-ovr', ('H_E', 'M_E2', 'T_E1', 'O_E0', 3, 4), 40000),
                             ('struct-one-ovr', ('H_E1', 'M_E1', 'T_E1', 'O_E0', 4, 4), 30000),
                             ('loops-sub', ('H_E', 'M_E0', 'NoGates', 'O_LS', 7, 4), 16000)]),
    'gates': dict(quick=[('gates-wide', ('H_G', 'M_G', 'T_G', 'O_G', 3, 3, 'NoGates'), 3000),
                         ('gates-deep', ('H_G', 'M_E0', 'T_G2', 'O_G2', 5, 2, 'NoGates'), 2000),
                         ('gates-sim', ('H_G', 'M_G', 'T_G', 'O_G', 9, 4, 'NoGates'), 2500, (700, 40)),
                         ('gates-ovr', ('H_GO', 'M_E0', 'T_GO', 'O_GO', 3, 3, 'NoGates'), 1200),
                         ('one-qubit', ('H_G1', 'M_E0', 'T_G1', 'O_G2', 4, 2, 'NoGates'), 300),
                         ('four-qubits', ('H_G4', 'M_E0', 'T_G4', 'O_G2', 4, 2, 'NoGates'), 1500)],
                  thorough=[('gates-wide', ('H_G', 'M_G', 'T_G', 'O_G', 4, 3, 'NoGates'), 100000),
                            ('gates-deep', ('H_G', 'M_E0', 'T_G2', 'O_G2', 6, 2, 'NoGates'), 100000),
                            ('gates-ovr', ('H_GO', 'M_E0', 'T_GO', 'O_GO', 4, 3, 'NoGates'), 40000),
                            ('one-qubit', ('H_G1', 'M_E0', 'T_G1', 'O_G2', 6, 2, 'NoGates'), 20000),
                            ('four-qubits', ('H_G4', 'M_E0', 'T_G4', 'O_G2', 5, 2, 'NoGates'), 60000)]),
    'par': dict(quick=[('par', ('H_P', 'M_P', 'T_P', 'O_P', 4, 4, 'NoGates'), 6000)],
                # (MaxNodes 5 is out of reach exhaustively since the nested-macro gates were added: 18 M states and counting;
                # deeper programs come from TLC's simulation mode)
                thorough=[('par', ('H_P', 'M_P', 'T_P', 'O_P', 4, 4, 'NoGates'), 150000),
                          ('par-deep', ('H_P', 'M_P', 'T_P', 'O_P', 7, 4, 'NoGates'), 60000, (20000, 40))]),
}

CONF['views'] = dict(quick=[('gates-deep', ('H_G', 'M_E0', 'T_G2', 'O_G2', 4, 2, 'NoGates'), 6000), ('struct', ('H_E', 'M_E0', 'T_E', 'O_E', 3, 3), 6000),
                            ('one-qubit', ('H_G1', 'M_E0', 'T_G1', 'O_G2', 3, 2, 'NoGates'), 800),
                            ('four-qubits', ('H_G4', 'M_E0', 'T_G4', 'O_G2', 3, 2, 'NoGates'), 2000)],
                     # (the configurations added to `struct` for C08 / C12 in rounds 4-6 say nothing new about result views)
                     thorough=CONF['gates']['thorough'] + [e for e in CONF['struct']['thorough']
                                                           if e[0] not in ('struct-macro-ovr', 'struct-one-ovr', 'loops-sub')])

PROPS = {
    'C12': dict(conf=['struct'], owned={'accept_iff', 'rule_named', 'n_subcircuits', 'discover_trace'}, sites=('run', 'run_shared'),
                rule='placements of prepare_all / measure_all / gates / subcircuit blocks over nested sequential blocks, '
                     'parallel blocks, loops (0, 1, 2, let) and a macro; non-trivial = distinct programs with a loop or a block '
                     'around a prepare/measure event'),
    'C08': dict(conf=['struct'], owned={'terminates', 'visits', 'readout_index', 'hook_visits', 'attribution', 'frequencies',
                                        'nonzero_prob', 'str_int_same'}, sites=('run', 'outparse', 'run_ovr'),
                rule='same enumeration as C12, executed by the emulator and by the hardware-output parser on an output '
                     'list of the length the specification computes; non-trivial = distinct accepted programs with a loop '
                     'around a subcircuit'),
    'C03': dict(conf=['gates'], owned={'vector', 'exact_repr', 'applied_gates', 'applied_count', 'step_vectors', 'probabilities'}, sites=('run', 'run_ovr'),
                rule='programs over the exact gate family on 3 qubits (direct, aliased and named qubits, macro parameters, '
                     'let-valued parameters, loops, parallel blocks); non-trivial = distinct accepted programs applying >= 2 '
                     'gates with a unitary'),
    'C13': dict(conf=['par'], owned={'reject_iff_overlap', 'used_exact_circuit', 'used_exact_statement', 'vector'}, sites=('run', 'used'),
                rule='parallel blocks with gate / sequential-block branches over 3 qubits named directly, through an alias or a '
                     'macro parameter, idle gates; non-trivial = distinct programs with a parallel block of >= 2 branches'),
    'C15': dict(conf=['views'], owned={'as_str', 'by_str_order', 'views_agree', 'normalised', 'normalised_sampling', 'str_int_same', 'freq_counts'},
                sites=('run', 'outparse', 'rerun', 'approx'),
                rule='result views of every subcircuit and readout of the C03 and C08 runs; non-trivial = accepted programs'),
}


def exec_cfg(consts, invariants=('VisitsWellFormed',)):
    headers, macrodefs, topgates, openers, maxnodes, maxdepth = consts[:6]
    outer = consts[6] if len(consts) > 6 else topgates
    s = ('SPECIFICATION Spec\nCONSTANTS\n Headers <- %s\n MacroDefs <- %s\n TopGates <- %s\n OuterGates <- %s\n Openers <- %s\n'
         ' MaxNodes = %d\n MaxDepth = %d\nINVARIANT EmitX\n' % (headers, macrodefs, topgates, outer, openers, maxnodes, maxdepth))
    for inv in invariants:
        s += 'INVARIANT %s\n' % inv
    return s


def enumerate_exec(rep, name, consts, wd, invariants, sim=None, budget=None, biased=False):
    """exhaustive BFS, or (sim = (num, depth)) TLC's random simulation of the same machine for deep programs.
    budget: a reproducible sample is taken while TLC runs (core.Sink); biased: nine tenths of it is spent on programs
    the specification accepts (its verdict is emitted with each program), one tenth on the others."""
    budgets = {'TRUE': budget - budget // 10, 'FALSE': budget // 10} if biased and budget else {}
    sink = core.Sink('<<"PROG", ', budget, classify=(lambda l: l[:-2].rsplit(', ', 2)[1]) if biased else None, budgets=budgets)
    if sim:
        res = core.run_tlc('ExecEnum', exec_cfg(consts, invariants), wd, timeout=3000, workers=8,
                           simulate='num=%d' % sim[0], depth=sim[1], tlc_seed=core.seed() + 1, sink=sink)
        rep.add_model_check('ExecEnum[%s] simulate num=%d depth=%d %s' % (name, sim[0], sim[1], ' '.join(invariants)), res)
    else:
        res = core.run_tlc('ExecEnum', exec_cfg(consts, invariants), wd, timeout=3000, sink=sink)
        rep.add_model_check('ExecEnum[%s] %s' % (name, ' '.join(invariants)), res)
    out = passes.Progs()
    for line in sink.all_lines():
        s = line[len('<<"PROG", '):].rstrip()
        # "<json string>", nv, accept, nq>>
        body, nv, acc, nq = s[:-2].rsplit(', ', 3)
        p = json.loads(json.loads(body))
        p['natives'] = passes.natives_of_tag(p['natives'])
        out.append({'prog': p, 'nv': int(nv), 'accept': acc == 'TRUE', 'nq': int(nq)})
    if not out:
        raise core.MachineryError('ExecEnum[%s] emitted nothing\n%s' % (name, res['out'][-1500:]))
    out.total = sink.total
    if biased:
        rep.cov.setdefault('accepted_by_spec', {})[name] = sink.by_class.get('TRUE', 0)
    if sink.sampled:
        rep.cov['exhaustive'] = False
    return out


def enumerate_explicit(rep, name, consts, wd, budget=None):
    """programs WITH A SUBCIRCUIT BLOCK together with their explicit spelling (JaqalExec/ExecEnum!RefExpandSub), for C09"""
    sink = core.Sink('<<"XPROG", ', budget, classify=lambda l: '\\"sub\\":true' in l[11:].split('", "', 1)[0], budgets={False: 0})
    res = core.run_tlc('ExecEnum', exec_cfg(consts, ('ExplicitSameTree',)).replace('INVARIANT EmitX', 'INVARIANT EmitExplicit'), wd, timeout=3000, sink=sink)
    rep.add_model_check('ExecEnum[%s] ExplicitSameTree' % name, res)
    out = passes.Progs()
    out.total = sink.by_class.get(True, 0)
    if sink.sampled:
        rep.cov['exhaustive'] = False
    for line in sink.all_lines():
        if line.startswith('<<"XPROG", '):
            body = line[len('<<"XPROG", '):].rstrip()[:-2]
            a, b = body.split('", "', 1)
            pa = json.loads(json.loads(a + '"'))
            pb = json.loads(json.loads('"' + b))
            for p in (pa, pb):
                p['natives'] = passes.natives_of_tag(p['natives'])
            out.append((pa, pb))
    if not out:
        raise core.MachineryError('ExecEnum[%s] emitted nothing\n%s' % (name, res['out'][-1500:]))
    return out


def reverse_par(stmt):
    """branches of every parallel block in reverse order (an input transformation, for order independence)"""
    if stmt['k'] == 'loop':
        return dict(stmt, body=reverse_par(stmt['body']))
    if stmt['k'] == 'blk':
        kids = [reverse_par(x) for x in stmt['body']]
        return dict(stmt, body=kids[::-1] if stmt['par'] else kids)
    return stmt


def used_of(fn):
    r, e = impl.with_cpu_limit(fn, seconds=3)
    if e is not None:
        return {'cls': 'timeout' if isinstance(e, impl.Timeout) else impl.classify_exc(e), 'idxs': []}
    idxs = sorted(set(i for v in r.values() for i in v))
    return {'cls': 'ok', 'idxs': [int(i) for i in idxs]}


def run_exec(job):
    from jaqalpaq.run import run_jaqal_circuit
    from jaqalpaq.core.result import parse_jaqal_output_list
    prog = job['prog']
    text = job.get('text') or render.render_prog(prog)
    pout, circ = passes.outcome(lambda: passes.parse_prog(prog, text))
    if circ is None:
        return [{'id': job['id'] + '/parsefail', 'site': 'parsefail', 'inp': passes.compress(prog), 'text': text,
                 'obs': dict(execrun.EMPTY_OBS, cls=pout['cls'], msg=pout['msg'], subs=[], readouts=[], visits=[], applies=[]), 'outs': []}]
    inp = pout['prog']
    cases = []
    if 'run' in job['sites']:
        obs = execrun.observe(lambda: run_jaqal_circuit(circ), seed=job['seed'])
        cases.append({'id': job['id'] + '/run', 'site': 'run', 'inp': inp, 'text': text, 'obs': obs, 'outs': []})
    if 'run_ovr' in job['sites']:
        # executed after let substitution under an override dictionary
        from jaqalpaq.core.algorithm import fill_in_let
        for k, ovr in enumerate(job.get('ovrs', [])):
            c2, e2 = impl.with_cpu_limit(lambda: fill_in_let(circ, override_dict=passes.ovr_dict(ovr)))
            if e2 is not None:
                obs = dict(execrun.EMPTY_OBS, cls='timeout' if isinstance(e2, impl.Timeout) else impl.classify_exc(e2), msg=str(e2)[:200],
                           family=execrun.family(str(e2)), subs=[], readouts=[], visits=[], applies=[])
            else:
                obs = execrun.observe(lambda: run_jaqal_circuit(c2), seed=job['seed'])
            cases.append({'id': '%s/run_ovr/%d' % (job['id'], k), 'site': 'run_ovr', 'inp': inp, 'ovr': ovr,
                          'text': text + ' | override %s' % passes.ovr_dict(ovr), 'obs': obs, 'outs': []})
            # the other order: macros expanded first, constants substituted afterwards (C10: the passes commute)
            from jaqalpaq.core.algorithm import expand_macros
            c3, e3 = impl.with_cpu_limit(lambda: fill_in_let(expand_macros(circ), override_dict=passes.ovr_dict(ovr)))
            if e3 is None:
                obs3 = execrun.observe(lambda: run_jaqal_circuit(c3), seed=job['seed'])
                cases.append({'id': '%s/run_ovr/%d/macros_first' % (job['id'], k), 'site': 'run_ovr', 'inp': inp, 'ovr': ovr,
                              'text': text + ' | macros expanded, then override %s' % passes.ovr_dict(ovr), 'obs': obs3, 'outs': []})
    if 'run_shared' in job['sites'] and job.get('prev') is not None:
        # a history on ONE backend object: another program is executed first, then this one (the specification judges this
        # run exactly like a run on a fresh backend: what an execution does must not depend on what the backend did before)
        from jaqalpaq.emulator.unitary import UnitarySerializedEmulator
        backend = UnitarySerializedEmulator()
        ptext = render.render_prog(job['prev'])
        _, pc = passes.outcome(lambda: passes.parse_prog(job['prev'], ptext))
        if pc is not None:
            impl.with_cpu_limit(lambda: run_jaqal_circuit(pc, backend=backend), seconds=3)
        obs = execrun.observe(lambda: run_jaqal_circuit(circ, backend=backend), seed=job['seed'])
        cases.append({'id': job['id'] + '/run_shared', 'site': 'run_shared', 'inp': inp, 'outs': [], 'obs': obs,
                      'text': text + ' | executed on a backend object that had executed before: ' + ptext})
    if 'rerun' in job['sites']:
        # one job executed twice, the result views read in between (results accumulate in the subcircuit objects)
        from jaqalpaq.emulator.unitary import UnitarySerializedEmulator
        from jaqalpaq.core.algorithm import expand_macros, fill_in_let, expand_subcircuits

        def twice():
            job_ = UnitarySerializedEmulator()(expand_macros(fill_in_let(expand_subcircuits(circ))))
            first = job_.execute()
            for sc in first.subcircuits:
                list(sc.relative_frequency_by_str.items()), list(sc.simulated_probability_by_str.items())
            return job_.execute()
        obs = execrun.observe(twice, seed=job['seed'])
        cases.append({'id': job['id'] + '/rerun', 'site': 'rerun', 'inp': inp, 'text': text, 'obs': obs, 'outs': []})
    if 'approx' in job['sites'] and prog['natives']:
        # the same program over gate definitions whose matrices are unitary only to 8 digits (the library accepts these,
        # warning above 1e-13 and failing above 2e-6): the result views must still be normalised
        from jaqalpaq.parser import parse_jaqal_string
        from jaqalpaq.core.gatedef import GateDefinition
        inject = {}
        for n, g in gates.select([x['v'] for x in prog['natives']]).items():
            if type(g) is GateDefinition and g.ideal_unitary is not None:
                g = g.copy(ideal_unitary=lambda *a, _u=g.ideal_unitary: numpy.asarray(_u(*a)) * (1 - 1e-8))
            inject[n] = g
        c2, e2 = impl.with_cpu_limit(lambda: parse_jaqal_string(text, inject_pulses=inject, autoload_pulses=False))
        if c2 is not None:
            import warnings
            with warnings.catch_warnings():
                warnings.simplefilter('ignore', RuntimeWarning)
                obs = execrun.observe(lambda: run_jaqal_circuit(c2), seed=job['seed'])
            cases.append({'id': job['id'] + '/approx', 'site': 'approx', 'inp': inp, 'text': text, 'obs': obs, 'outs': []})
    if 'longrun' in job['sites']:
        # counts beyond 16 bits: one outcome recorded 70 000 times, by the emulator and by the output parser (integers and
        # strings mixed); only the result views are judged (hook events are dropped: 140 000 of them carry nothing new)
        for key, fn in (('emu', lambda: run_jaqal_circuit(circ)),
                        ('out', lambda: parse_jaqal_output_list(circ, [1 if j % 2 else '1' for j in range(job['nv'])]))):
            obs = execrun.observe(fn, seed=job['seed'], limit=300)
            obs['visits'], obs['applies'] = [], []
            cases.append({'id': '%s/longrun/%s' % (job['id'], key), 'site': 'longrun', 'inp': inp, 'text': text, 'obs': obs, 'outs': []})
    if 'used' in job['sites']:
        from jaqalpaq.core.algorithm import get_used_qubit_indices
        cases.append({'id': job['id'] + '/used', 'site': 'used', 'inp': inp, 'text': text, 'obs': dict(execrun.EMPTY_OBS), 'outs': [],
                      'used_all': used_of(lambda: get_used_qubit_indices(circ)),
                      'used_stmts': [used_of(lambda s=s: get_used_qubit_indices(s)) for s in circ.body.statements]})
    if 'explicit' in job['sites']:
        text2 = render.render_prog(job['prog2'])
        p2, circ2 = passes.outcome(lambda: passes.parse_prog(job['prog2'], text2))
        obs = execrun.observe(lambda: run_jaqal_circuit(circ), seed=job['seed'])
        obs2 = execrun.observe(lambda: run_jaqal_circuit(circ2), seed=job['seed']) if circ2 is not None else dict(execrun.EMPTY_OBS, cls='parsefail')
        cases.append({'id': job['id'] + '/explicit', 'site': 'explicit', 'inp': inp, 'text': text + ' <=> ' + text2, 'obs': obs, 'obs2': obs2, 'outs': []})
    if 'outparse' in job['sites']:
        rng = random.Random(job['seed'])
        vals = [rng.randrange(2 ** job['nq']) for _ in range(job['nv'])]
        outs = [v if j % 2 == 0 else format(v, 'b').zfill(job['nq'])[::-1] for j, v in enumerate(vals)]
        obs = execrun.observe(lambda: parse_jaqal_output_list(circ, outs), seed=job['seed'])
        cases.append({'id': job['id'] + '/outparse', 'site': 'outparse', 'inp': inp, 'text': text, 'obs': obs, 'outs': vals})
    return cases


def structural_nontrivial(prop, prog):
    r = repr(prog['body']) + repr(prog['macros'])
    if prop in ('C12',):
        return "'k': 'loop'" in r or "'k': 'blk'" in r
    if prop == 'C08':
        return "'k': 'loop'" in r and ("'sub': True" in r or 'prepare_all' in r)
    if prop == 'C03':
        return sum(r.count("'v': '%s'" % g) for g in ('X', 'H', 'S', 'CX', 'SW', 'CCX', 'F', 'R', 'CR', 'Pf', 'm')) >= 2
    if prop == 'C13':
        return "'par': True" in r
    return True


def main(prop, tier):
    impl.guard_repo()
    spec = PROPS[prop]
    rep = core.Report(prop, tier)
    rng = random.Random(core.seed())
    wd = core.workdir(prop)
    jobs = []
    for conf in spec['conf']:
        for entry in CONF[conf][tier]:
            name, consts, budget = entry[:3]
            sim = entry[3] if len(entry) > 3 else None
            if prop == 'C15':
                budget = max(500, budget // 4)
            inv = ('VisitsWellFormed',) + (('NormPreserved',) if conf == 'gates' and tier == 'quick' and prop == 'C03' else ()) \
                + (('DiscoverAlgRefinesRule',) if prop == 'C12' else ())
            # C08, C03, C15 speak about programs that are executed: the specification's own verdict (emitted with each
            # program) is used to spend the budget on accepted programs, plus a tenth of the budget on the others
            items = enumerate_exec(rep, name, consts, wd, inv, sim, budget=budget, biased=prop in ('C08', 'C03', 'C15'))
            rep.cov.setdefault('enumerated_programs', {})[name] = items.total
            if len(items) > budget:
                items = rng.sample(items, budget)
                rep.cov['exhaustive'] = False
            for n, it in enumerate(items):
                if 'run_shared' in spec['sites'] and n % 2 == 1:
                    shared_prev = items[n - 1]['prog']
                else:
                    shared_prev = None
                jobs.append({'prev': shared_prev, 'id': '%s/%d' % (name, n), 'prog': it['prog'], 'nv': it['nv'], 'nq': it['nq'], 'accept': it['accept'],
                             'sites': spec['sites'], 'seed': core.seed() + n,
                             'ovrs': passes.override_choices(it['prog'], rng, [0, 2, 3, 1], 2)[1:]
                             if 'run_ovr' in spec['sites'] and (prop == 'C03' or name.endswith('-ovr')) else []})
                if prop == 'C13' and "'par': True" in repr(it['prog']['body']):
                    rp = dict(it['prog'], body=[reverse_par(x) for x in it['prog']['body']])
                    jobs.append({'id': '%s/%d/rev' % (name, n), 'prog': rp, 'nv': it['nv'], 'nq': it['nq'],
                                 'sites': ('run',), 'seed': core.seed() + n})
    for f in rep.findings:
        if 'witness' in f and 'text' in f['witness']:
            w = f['witness']
            jobs.append({'id': 'witness/' + f['id'], 'prog': dict(passes.EMPTY_PROG, natives=passes.exact_natives()),
                         'text': w['text'], 'nv': w.get('nv', 0), 'nq': w.get('nq', 2), 'sites': spec['sites'], 'seed': 1})
    if prop == 'C15':
        jobs.append({'id': 'long/0', 'prog': dict(passes.EMPTY_PROG, natives=passes.exact_natives()), 'nv': 70001, 'nq': 1, 'seed': 1,
                     'text': 'register q[1]\nloop 70000 {\nprepare_all\nX q[0]\nmeasure_all\n}\nprepare_all\nmeasure_all\n', 'sites': ('longrun',)})
    if prop in ('C03', 'C13'):
        # the emulator as a state machine: every interleaving of parallel branches gives the textual-order state
        for w in range(1, 6):
            res = core.run_tlc('EmuMachine', 'SPECIFICATION Spec\nCONSTANTS\n Which = %d\nINVARIANT Confluent\nINVARIANT NormInv\n' % w, wd, workers=2)
            rep.add_model_check('EmuMachine[tree %d] Confluent NormInv (all interleavings)' % w, res)
    if prop == 'C08':
        # R7: the transcription of the implementation's walker refines the requirement and terminates
        for w in range(1, 9):
            cfg = ('SPECIFICATION Spec\nCONSTANTS\n Which = %d\n Fixed = TRUE\nINVARIANT Safety\nINVARIANT PrefixOK\n'
                   'PROPERTY Termination\nCHECK_DEADLOCK FALSE\n' % w)
            res = core.run_tlc('WalkAlg', cfg, wd, workers=1)
            rep.add_model_check('WalkAlg[program %d, repaired algorithm] Safety PrefixOK Termination(liveness)' % w, res)
    rep.phase('tlc_enumeration')
    recs = [c for cs in core.pool_map(run_exec, jobs, chunksize=50) for c in cs]
    rep.phase('replay')
    verdicts, stats = core.validate('Conform_Exec', recs, wd, shard_size=2000)
    rep.phase('tlc_validation')
    for f in rep.findings:
        if 'witness' in f:
            hit = [v for k, v in verdicts.items() if k.startswith('witness/' + f['id'] + '/') and f['clause'] in v['clauses']
                   and k.endswith('/' + f['site'])]
            rep.witness(f['id'], bool(hit))
    bysite = {}
    for r in recs:
        bysite.setdefault(r['site'], []).append(r)
    first = True
    for site, rs in sorted(bysite.items()):
        ids = {r['id'] for r in rs}
        rep.add_validation(site, rs, {k: v for k, v in verdicts.items() if k in ids},
                           stats if first else {'states': 0, 'transitions': 0}, owned=spec['owned'])
        first = False
    rep.cov['rule'] = spec['rule']
    rep.cov['distinct_nontrivial'] = len({repr(j['prog']['body']) + repr(j['prog']['macros']) for j in jobs
                                          if structural_nontrivial(prop, j['prog'])})
    rep.cov['outcomes'] = {}
    for r in recs:
        k = r['site'] + ':' + r['obs']['cls']
        rep.cov['outcomes'][k] = rep.cov['outcomes'].get(k, 0) + 1
    rep.cov.setdefault('exhaustive', True)
    for r in recs[0:len(recs):max(1, len(recs) // 4)][:4]:
        rep.sample({'site': r['site'], 'text': r['text'], 'outcome': r['obs']['cls'], 'message': r['obs']['msg'],
                    'readouts': [[x['sub'], x['value']] for x in r['obs']['readouts']][:12],
                    'failing_clauses': verdicts.get(r['id'], {}).get('clauses', [])})
    rep.assumptions += ['projection / renderer trusted', 'float state vectors are converted to exact form with tolerance 1e-9',
                        'gate matrices of the exact family: harness/gates.py must agree with JaqalExec!Mat (validated by the vector clause itself)']
    if prop == 'C15':
        # a consumer of the result views: validation comments written from an execution, read back and compared
        from . import valid
        vj = [j for j in jobs if j.get('accept')]
        valid.stage(rep, wd, rng.sample(vj, min(len(vj), 500 if tier == 'quick' else 2500)), tier)
        rep.phase('validation_comments')
    core.cleanup(prop)
    return rep.finish()


def explicit_stage(rep, wd, rng, tier):
    """C09, dynamic half: a program with subcircuit blocks and its explicit spelling (computed by the specification) are
    executed with the same seed; TLC compares the two recorded executions"""
    budget = 2500 if tier == 'quick' else 60000
    pairs = enumerate_explicit(rep, 'explicit', ('H_E', 'M_E1', 'T_E1', 'O_E', 3 if tier == 'quick' else 4, 3), wd, budget=budget)
    rep.cov['explicit_spelling_pairs_enumerated'] = pairs.total
    pairs = [p for p in pairs if "'sub': True" in repr(p[0]['body']) + repr(p[0]['macros'])]
    if len(pairs) > budget:
        pairs = rng.sample(pairs, budget)
    jobs = [{'id': 'explicit/%d' % n, 'prog': a, 'prog2': b, 'nv': 0, 'nq': 2, 'sites': ('explicit',), 'seed': n}
            for n, (a, b) in enumerate(pairs)]
    recs = [c for cs in core.pool_map(run_exec, jobs, chunksize=50) for c in cs]
    verdicts, stats = core.validate('Conform_Exec', recs, wd, shard_size=2000)
    rep.add_validation('explicit', recs, verdicts, stats, owned={'same_as_explicit'})
    rep.cov['explicit_spelling_pairs'] = len(recs)
