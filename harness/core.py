"""Shared machinery: running TLC, sharded batch validation, evidence, known findings, exit codes.

No Jaqal semantics lives here (DESIGN R1): this module schedules TLC runs, moves JSON around and keeps
books.  Every verdict that decides a property is computed by TLC from operators in /verif/spec.
"""
import json
import os
import re
import shutil
import subprocess
import sys
import time
import concurrent.futures as cf

from . import tlaval

ROOT = os.path.dirname(os.path.dirname(os.path.abspath(__file__)))
SPEC = os.path.join(ROOT, 'spec')
# VERIF_SCRATCH (used by seedtest2.sh only): work files, evidence and replays of a run against a seeded scratch tree go
# there, so that such runs neither overwrite the evidence of /repo nor collide with a check running at the same time
_OUT = os.environ.get('VERIF_SCRATCH') or ROOT
WORK = os.path.join(_OUT, '.work')
EVID = os.path.join(_OUT, 'evidence')
REPLAY = os.path.join(_OUT, 'replays')
TLA_JAR = '/opt/veriftools/tla/tla2tools.jar:/opt/veriftools/tla/CommunityModules-deps.jar'
NCPU = min(16, os.cpu_count() or 4)


class MachineryError(Exception):
    pass


def seed():
    try:
        return int(os.environ.get('VERIF_SEED', '0'))
    except ValueError:
        return 0


def workdir(name):
    d = os.path.join(WORK, name)
    shutil.rmtree(d, ignore_errors=True)
    os.makedirs(d, exist_ok=True)
    return d


def cleanup(name):
    shutil.rmtree(os.path.join(WORK, name), ignore_errors=True)


_RE_STATES = re.compile(r'(\d+) states generated, (\d+) distinct states found')
_RE_DEPTH = re.compile(r'The depth of the complete state graph search is (\d+)')


class Sink:
    """Constant-memory, order-independent, reproducible sample of the lines TLC emits with a given prefix.

    TLC's workers print in a nondeterministic order and an enumeration can emit millions of lines, so the sample is a
    bottom-k sketch: the `budget` lines with the smallest keyed hash (a uniform sample without replacement of the
    DISTINCT lines, the same whatever the order of arrival).  `classify` splits the lines into classes with their own
    budgets (used to spend the budget on programs the specification accepts)."""

    def __init__(self, prefix, budget=None, classify=None, budgets=None):
        import hashlib
        self.prefix, self.budget, self.classify, self.budgets = prefix, budget, classify, budgets or {}
        self.heaps, self.members, self.total, self.by_class = {}, {}, 0, {}
        self._h = lambda b: hashlib.blake2b(b, digest_size=12, key=b'seed%d' % seed()).digest()

    def add(self, line):
        import heapq
        self.total += 1
        cls = self.classify(line) if self.classify else None
        self.by_class[cls] = self.by_class.get(cls, 0) + 1
        k = self.budgets.get(cls, self.budget)
        if k == 0:
            return
        heap, mem = self.heaps.setdefault(cls, []), self.members.setdefault(cls, set())
        h = self._h(line.encode('utf8', 'replace'))
        if h in mem:
            self.total -= 1
            self.by_class[cls] -= 1
            return
        neg = bytes(255 - x for x in h)          # max-heap on h through a min-heap on its complement
        if k is None or len(heap) < k:
            heapq.heappush(heap, (neg, line))
            mem.add(h)
        elif neg > heap[0][0]:
            old = heapq.heapreplace(heap, (neg, line))
            mem.discard(bytes(255 - x for x in old[0]))
            mem.add(h)

    def lines(self, cls=None):
        """the sample, in hash order (reproducible)"""
        return [l for _, l in sorted(self.heaps.get(cls, []), reverse=True)]

    def all_lines(self):
        return [l for c in sorted(self.heaps, key=repr) for l in self.lines(c)]

    @property
    def sampled(self):
        return any(self.by_class.get(c, 0) > len(h) for c, h in self.heaps.items())


def run_tlc(module, cfg, wd, *, workers=NCPU, env=None, dump=None, simulate=None, depth=None, jvm=(),
            timeout=3600, extra=(), xss='512m', heap=None, coverage=False, deadlock=False,
            tlc_seed=None, sink=None):
    """Run TLC on spec/<module>.tla with config text `cfg`.  Returns a dict.  Lines starting with sink.prefix go to
    the sink (constant memory) instead of the captured output."""
    cfgpath = os.path.join(wd, module + '_%d.cfg' % (abs(hash((cfg, dump, simulate))) % 10**8))
    with open(cfgpath, 'w') as fh:
        fh.write(cfg)
    meta = os.path.join(wd, 'meta_%d' % (abs(hash((module, cfg, str(env)))) % 10**8))
    cmd = ['java', '-XX:+UseParallelGC', '-XX:ParallelGCThreads=%d' % max(2, min(8, workers)), '-Xss' + xss]
    if heap:
        cmd.append('-Xmx' + heap)
    cmd += list(jvm)
    cmd += ['-cp', TLA_JAR, 'tlc2.TLC', '-workers', str(workers), '-metadir', meta,
            '-noGenerateSpecTE', '-config', cfgpath]
    if not deadlock:
        cmd.append('-deadlock')
    if dump:
        cmd += ['-dump', dump]
    if simulate:
        cmd += ['-simulate', simulate]
    if depth:
        cmd += ['-depth', str(depth)]
    if coverage:
        cmd += ['-coverage', '1']
    if tlc_seed is not None:
        cmd += ['-seed', str(tlc_seed)]
    cmd += list(extra)
    cmd.append(os.path.join(SPEC, module + '.tla'))
    e = dict(os.environ)
    e.pop('JAVA_TOOL_OPTIONS', None)
    if env:
        e.update({k: str(v) for k, v in env.items()})
    t0 = time.time()
    if sink is not None:
        import threading
        p = subprocess.Popen(cmd, cwd=SPEC, env=e, stdout=subprocess.PIPE, stderr=subprocess.STDOUT, text=True, errors='replace')
        killer = threading.Timer(timeout, p.kill)
        killer.start()
        kept = []
        for line in p.stdout:
            if line.startswith(sink.prefix):
                sink.add(line.rstrip('\n'))
            else:
                kept.append(line)
        rc = p.wait()
        timed_out = not killer.is_alive() and rc != 0 and time.time() - t0 >= timeout
        killer.cancel()
        out = ''.join(kept)
    else:
        try:
            p = subprocess.run(cmd, cwd=SPEC, env=e, stdout=subprocess.PIPE, stderr=subprocess.STDOUT,
                               timeout=timeout, text=True, errors='replace')
            out, rc, timed_out = p.stdout, p.returncode, False
        except subprocess.TimeoutExpired as ex:
            out = ex.stdout if isinstance(ex.stdout, str) else (ex.stdout or b'').decode('utf8', 'replace')
            rc, timed_out = -9, True
    shutil.rmtree(meta, ignore_errors=True)
    res = {'out': out, 'rc': rc, 'timed_out': timed_out, 'wall': time.time() - t0,
           'generated': 0, 'distinct': 0, 'depth': 0}
    ms = _RE_STATES.findall(out)
    if ms:
        res['generated'], res['distinct'] = int(ms[-1][0]), int(ms[-1][1])
    msim = re.search(r'The number of states generated: (\d+)', out)
    if msim and not ms:
        res['generated'] = res['distinct'] = int(msim.group(1))
    md = _RE_DEPTH.search(out)
    if md:
        res['depth'] = int(md.group(1))
    res['violated'] = re.findall(r'Error: Invariant (\w+) is violated', out) + \
        re.findall(r'Error: Action property (\w+) is violated', out) + \
        (['<temporal>'] if 'Temporal properties were violated' in out else []) + \
        re.findall(r'Error: Temporal property (\w+) was violated', out) + \
        (['<postcondition>'] if 'POSTCONDITION' in out and 'violated' in out.split('POSTCONDITION')[-1][:200] else [])
    res['error'] = None
    if timed_out:
        res['error'] = 'timeout'
    elif rc != 0 and not res['violated']:
        m = re.search(r'Error: .*', out)
        res['error'] = (m.group(0) if m else 'rc=%d' % rc)
    elif 'Error: ' in out and not res['violated']:
        res['error'] = re.search(r'Error: .*', out).group(0)
    return res


def must(res, what):
    """Abort with a machinery error if a TLC run failed for reasons other than a property violation."""
    if res['error']:
        tail = res['out'][-3000:]
        raise MachineryError('%s: TLC failed: %s\n%s' % (what, res['error'], tail))
    return res


def _validate_shard(args):
    module, cfg, wd, idx, cases, env, timeout = args
    path = os.path.join(wd, 'cases_%d.json' % idx)
    with open(path, 'w') as fh:
        json.dump(cases, fh)
    e = dict(env or {})
    e['CASES'] = path
    swd = os.path.join(wd, 'shard_%d' % idx)
    os.makedirs(swd, exist_ok=True)
    res = run_tlc(module, cfg, swd, workers=1, env=e, timeout=timeout, heap='3g',
                  jvm=('-XX:TieredStopAtLevel=1', '-Xms512m'))
    os.remove(path)
    shutil.rmtree(swd, ignore_errors=True)
    return idx, res


BATCH_CFG = 'SPECIFICATION Spec\n'


def validate(module, cases, wd, *, cfg=BATCH_CFG, shard_size=4000, env=None, timeout=3600, jobs=8):
    """Batch validation (DESIGN 4.4): cases are JSON objects with a unique 'id'.  The trace spec steps
    through them one state per case and prints <<"V", id, {failing clauses}, {triggers}>> for every case
    that fails at least one clause, and <<"DONE", n>> at the end.  Returns (verdicts, stats)."""
    if not cases:
        return {}, {'states': 0, 'transitions': 0, 'shards': 0}
    shards = [cases[i:i + shard_size] for i in range(0, len(cases), shard_size)]
    verdicts = {}
    stats = {'states': 0, 'transitions': 0, 'shards': len(shards), 'tlc_wall': 0.0, 'info': {}}
    with cf.ThreadPoolExecutor(max_workers=jobs) as ex:
        futs = [ex.submit(_validate_shard, (module, cfg, wd, i, sh, env, timeout)) for i, sh in enumerate(shards)]
        for f in cf.as_completed(futs):
            idx, res = f.result()
            must(res, 'validation %s shard %d' % (module, idx))
            if res['violated']:
                raise MachineryError('validation %s shard %d: %s violated (not all cases consumed)\n%s'
                                     % (module, idx, res['violated'], res['out'][-2000:]))
            done = tlaval.balanced_values(res['out'], 'DONE')
            if not done or done[-1][1] != len(shards[idx]):
                raise MachineryError('validation %s shard %d: consumed %r of %d cases\n%s'
                                     % (module, idx, done, len(shards[idx]), res['out'][-2000:]))
            for v in tlaval.balanced_values(res['out'], 'V'):
                cid = v[1]
                verdicts[cid] = {'clauses': sorted(v[2]), 'triggers': sorted(v[3]) if len(v) > 3 else [],
                                 'detail': v[4] if len(v) > 4 else None}
            for v in tlaval.balanced_values(res['out'], 'I'):
                # informational counters: <<"I", key, n>>
                stats['info'][v[1]] = stats['info'].get(v[1], 0) + v[2]
            stats['states'] += res['distinct']
            stats['transitions'] += res['generated']
            stats['tlc_wall'] += res['wall']
    return verdicts, stats


def pool_map(fn, items, jobs=NCPU, chunksize=64):
    """Run fn over items in worker processes (fresh interpreters via fork)."""
    import multiprocessing as mp
    if jobs <= 1 or len(items) < 2 * chunksize:
        return [fn(x) for x in items]
    import gc
    ctx = mp.get_context('fork')
    gc.collect()
    gc.freeze()          # keep the children's collector away from the parent's heap (copy-on-write storms)
    try:
        with ctx.Pool(jobs) as p:
            return p.map(fn, items, chunksize=chunksize)
    finally:
        gc.unfreeze()


# ----------------------------------------------------------------------------------------------
# known findings


def load_findings():
    path = os.path.join(ROOT, 'known_findings.json')
    if not os.path.exists(path):
        return []
    with open(path) as fh:
        return json.load(fh)['findings']


class Report:
    """Collects per-case verdicts for one property run; prints VIOLATION / KNOWN-FINDING lines;
    writes evidence and replay files; decides the exit code."""

    def __init__(self, prop, tier):
        self.prop = prop
        self.tier = tier
        self.t0 = time.time()
        self.findings = [f for f in load_findings() if f['property'] == prop]
        import glob
        for old in glob.glob(os.path.join(REPLAY, prop + '_*.json')):
            os.remove(old)
        self.violations = []          # (site, clause, case)
        self.attributed = {}          # finding id -> count
        self.witness_state = {}       # finding id -> still failing?
        self.cov = {'states': 0, 'transitions': 0, 'traces_validated_against_impl': 0, 'samples': [],
                    'evaluations': 0, 'distinct_nontrivial': 0, 'rule': '', 'per_site': {},
                    'clause_failures': {}, 'out_of_domain': 0, 'model_checks': []}
        self.assumptions = []
        self.notes = []
        self._pt = time.time()
        self.cov['phase_s'] = {}

    def phase(self, name):
        now = time.time()
        self.cov['phase_s'][name] = round(self.cov['phase_s'].get(name, 0) + now - self._pt, 1)
        self._pt = now

    # --- bookkeeping helpers
    def add_model_check(self, name, res, extra=None):
        must(res, name)
        if res['violated']:
            raise MachineryError('spec-level check %s: %s violated on the specification itself\n%s'
                                 % (name, res['violated'], res['out'][-3000:]))
        self.cov['states'] += res['distinct']
        self.cov['transitions'] += res['generated']
        d = {'name': name, 'distinct': res['distinct'], 'generated': res['generated'],
             'depth': res['depth'], 'wall_s': round(res['wall'], 1)}
        if extra:
            d.update(extra)
        self.cov['model_checks'].append(d)

    def add_validation(self, site, cases, verdicts, stats, owned=None):
        """Fold the TLC verdicts of one batch into the report.  `owned`: the clause names this property
        is responsible for at this site (None = all); other clauses belong to another property's check."""
        self.cov['states'] += stats['states']
        self.cov['transitions'] += stats['transitions']
        self.cov['traces_validated_against_impl'] += len(cases)
        self.cov['evaluations'] += len(cases)
        ps = self.cov['per_site'].setdefault(site, {'cases': 0, 'failing': 0})
        ps['cases'] += len(cases)
        for k, v in stats.get('info', {}).items():
            self.cov.setdefault('info', {})[site + ':' + k] = self.cov.get('info', {}).get(site + ':' + k, 0) + v
        byid = {c['id']: c for c in cases}
        for cid, v in verdicts.items():
            ps['failing'] += 1
            case = byid.get(cid)
            for clause in v['clauses']:
                if owned is not None and clause not in owned:
                    self.cov.setdefault('clauses_left_to_other_properties', {})
                    k2 = '%s/%s' % (site, clause)
                    self.cov['clauses_left_to_other_properties'][k2] = \
                        self.cov['clauses_left_to_other_properties'].get(k2, 0) + 1
                    continue
                key = '%s/%s' % (site, clause)
                self.cov['clause_failures'][key] = self.cov['clause_failures'].get(key, 0) + 1
                f = self._attribute(site, clause, v['triggers'], case)
                if f is not None:
                    self.attributed[f['id']] = self.attributed.get(f['id'], 0) + 1
                else:
                    self.violations.append((site, clause, case, v))

    def _attribute(self, site, clause, triggers, case):
        for f in self.findings:
            if f.get('status') != 'open':
                continue
            if f['site'] != site or f['clause'] != clause:
                continue
            if f.get('trigger') and f['trigger'] not in triggers:
                continue
            if self.witness_state.get(f['id']) is False:
                continue       # the witness no longer fails: the entry explains nothing any more
            return f
        return None

    def witness(self, fid, still_fails):
        self.witness_state[fid] = bool(still_fails)

    def sample(self, obj):
        if len(self.cov['samples']) < 8:
            self.cov['samples'].append(obj)

    # --- finishing
    def finish(self):
        os.makedirs(EVID, exist_ok=True)
        os.makedirs(REPLAY, exist_ok=True)
        rc = 0
        lines = []
        for f in self.findings:
            if f.get('status') == 'open' and self.witness_state.get(f['id']) is not False:
                lines.append('KNOWN-FINDING: property=%s %s [%s/%s; witness: %s; also explains %d explored case(s)]'
                             % (self.prop, f['what'], f['site'], f['clause'], f['witness_text'],
                                self.attributed.get(f['id'], 0)))
            elif f.get('status') == 'open':
                lines.append('NOTE: known finding %s no longer reproduces on its witness; it suppresses nothing' % f['id'])
        seen = set()
        for n, (site, clause, case, v) in enumerate(self.violations):
            key = (site, clause)
            path = os.path.join(REPLAY, '%s_%s_%s_%d.json' % (self.prop, site, clause, n))
            if len([1 for s in seen if s == key]) == 0 or n < 20:
                with open(path, 'w') as fh:
                    json.dump({'property': self.prop, 'site': site, 'clause': clause, 'verdict': v,
                               'case': case}, fh, indent=1, default=str)
                lines.append('VIOLATION property=%s replay=%s' % (self.prop, path))
                lines.append('  site=%s clause=%s all_failing_clauses=%s %s' % (
                    site, clause, v['clauses'], _brief(case)))
            seen.add(key)
            rc = 1
        self.cov['violations_by_clause'] = {}
        for site, clause, case, v in self.violations:
            k = '%s/%s' % (site, clause)
            self.cov['violations_by_clause'][k] = self.cov['violations_by_clause'].get(k, 0) + 1
        self.cov['known_finding_cases'] = dict(self.attributed)
        if not self.cov['samples']:
            self.cov['samples'] = ['(no cases)']
        if self.cov['states'] < 1:
            self.cov['states'] = 1
        if self.cov['transitions'] < 1:
            self.cov['transitions'] = 1
        ev = {'property_id': self.prop, 'tier': self.tier, 'seed': seed(), 'level': 'model_checking',
              'coverage': self.cov, 'assumptions': self.assumptions, 'wall_s': round(time.time() - self.t0, 2),
              'violations': len(self.violations), 'notes': self.notes}
        with open(os.path.join(EVID, self.prop + '.json'), 'w') as fh:
            json.dump(ev, fh, indent=1, default=str)
        for l in lines:
            print(l)
        print('%s %s: %d cases validated by TLC, %d spec states, %d violation(s), %d case(s) explained by known findings, %.1fs'
              % (self.prop, self.tier, self.cov['traces_validated_against_impl'], self.cov['states'],
                 len(self.violations), sum(self.attributed.values()), time.time() - self.t0))
        return rc


def _brief(case):
    if case is None:
        return ''
    for k in ('text', 'src', 'witness_text'):
        if isinstance(case.get(k), str):
            return 'input=%r' % case[k][:300]
    return 'case_id=%r' % case.get('id')
