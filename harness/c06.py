"""C06 - every qubit reference resolves to the right physical qubit through aliases.

TLC builds every two-link alias chain (whole / single index / slice with start, stop in a small range incl. -1 and
values beyond the size, step in {-1, 1, 2}, omitted or let-valued bounds) over registers of size 3 and 4 that the
specification declares valid (RegTab), and the AstEnum machine places gates on the last alias directly, through a
macro parameter, with a let index and as a named single-qubit alias.  Four consumers of the same reference are
replayed and validated by TLC against JaqalSem!RegEntry / ArgV (element i of src[start:stop:step] is element
start + i*step of src, composed along the chain):
  qubit resolution   - NamedQubit.resolve_qubit() of every argument object (clause refs_follow_decls, registers)
  alias fill-in      - fill_in_map (no alias reference left, same meaning)
  used-qubit analysis- get_used_qubit_indices (used_exact_*)
  the emulator       - run_jaqal_circuit (vector, applied_gates through hook H3)"""
from . import passes, execprops, core

PROP = 'C06'
CONFIGS = {
    'quick': [('chains', ('H_CHQ', 'M_CH', 'T_CH', 'O_CH', 2, 2, 'NoGates'), 2500), ('aliases', ('H_A', 'M_A', 'T_A', 'O_A', 2, 3), 1500)],
    'thorough': [('chains', ('H_CH', 'M_CH', 'T_CH', 'O_CH', 3, 2, 'NoGates'), 80000), ('aliases', ('H_A', 'M_A', 'T_A', 'O_A', 3, 3), 40000)],
}
OWNED = {'accepted', 'no_alias_refs', 'no_let_refs', 'meaning_mod_sub', 'header_carried', 'macros_kept', 'refs_follow_decls'}
EXEC_OWNED = {'vector', 'applied_gates', 'applied_count', 'step_vectors', 'used_exact_circuit', 'used_exact_statement', 'exact_repr'}


def owned(site):
    return {'registers', 'denotes', 'refs_follow_decls', 'accepted'} if site == 'parse' else OWNED


def nontrivial(prog):
    return sum(1 for r in prog['regs'] if r['k'] == 'alias' and r['mode'] != 'whole') >= 2


def exec_stage(rep, wd, rng, tier, jobs_holder):
    # the emulator needs native gate definitions: only programs built over the exact gate set are executed
    jobs = [dict(j, sites=('run', 'used'), nv=0, nq=3, seed=n) for n, j in enumerate(jobs_holder) if j['prog']['natives']]
    recs = [c for cs in core.pool_map(execprops.run_exec, jobs, chunksize=50) for c in cs]
    verdicts, stats = core.validate('Conform_Exec', recs, wd, shard_size=2000)
    for site in ('run', 'used'):
        rs = [r for r in recs if r['site'] == site]
        ids = {r['id'] for r in rs}
        rep.add_validation(site, rs, {k: v for k, v in verdicts.items() if k in ids},
                           stats if site == 'run' else {'states': 0, 'transitions': 0}, owned=EXEC_OWNED)


def main(tier):
    holder = []

    def sites(p, rng):
        holder.append({'id': 'x/%d' % len(holder), 'prog': p})
        # alias fill-in alone, and after let substitution under an override of every declared constant
        return [('fill_in_map', [])] + [('fill_in_let_map', o) for o in passes.override_choices(p, rng, [0, 2, 1, 3], 3)]
    cfgs = {t: [(n, c[:6], b) for n, c, b in v] for t, v in CONFIGS.items()}
    # the chain configuration keeps gates inside subcircuit blocks so that the emulator accepts the programs
    import functools
    orig = passes.ast_cfg
    outer = {c[:6]: (c[6] if len(c) > 6 else None) for v in CONFIGS.values() for n, c, b in v}
    passes.ast_cfg = lambda *a, **k: orig(*a, outer=outer.get(tuple(a[:6])), invariants=('AliasSound',) if a[0] in ('H_CH', 'H_CHQ') else ('MeaningDefined', 'EraseAgrees', 'AliasSound'))
    try:
        return passes.run_property(
            PROP, tier, cfgs, sites, owned, nontrivial,
            'two-link alias chains (whole / index / slice, literal, omitted and let-valued bounds) over registers of size 3-4 that '
            'the specification declares valid, gates on the last alias directly / via macro / let index / named qubit; four '
            'consumers replayed; non-trivial = distinct programs whose chain has two non-trivial links',
            extra_stage=lambda rep, wd, rng: exec_stage(rep, wd, rng, tier, holder), variants=('edge',))
    finally:
        passes.ast_cfg = orig
