"""C06 - every qubit reference resolves to the right physical qubit through aliases."""
from . import passes

PROP = 'C06'
CONFIGS = {
    'quick': [('aliases', ('H_A', 'M_A', 'T_A', 'O_A', 2, 3), 4000)],
    'thorough': [('aliases', ('H_A', 'M_A', 'T_A', 'O_A', 3, 3), 60000)],
}
OWNED = {'accepted', 'no_alias_refs', 'meaning_mod_sub', 'header_carried', 'macros_kept', 'refs_follow_decls'}


def owned(site):
    return {'registers', 'denotes'} if site == 'parse' else OWNED


def nontrivial(prog):
    return True


def main(tier):
    return passes.run_property(
        PROP, tier, CONFIGS, lambda p, rng: [('fill_in_map', [])], owned, nontrivial,
        'programs over alias chains')
