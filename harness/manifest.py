"""Writes /verif/MANIFEST.json from the table below (run: /venv/bin/python -m harness.manifest)."""
import json
import os
import subprocess

ROOT = os.path.dirname(os.path.dirname(os.path.abspath(__file__)))

CHECKS = {
    'C02': dict(
        text='TLC enumerates every viable token prefix of the ParseEnum machine (alphabets: grammar, header, layout, '
             'branch statements; continuations of fixed openings for a second register statement and for case statements; plus '
             'one token past the first offending one) and checks NoDrop / LayoutErase / DeadStaysDead on the '
             'specification; every enumerated string and every single-token near miss of every accepted one is parsed by '
             'the real parser and the recorded outcome (class, tree, error position) is validated by TLC against '
             'JaqalParse!Step folded over the tokens. Exhaustive inside the stated token-length bound; beyond it, every text that the '
             'repository\'s own test suite hands to the parser (recorded by a pytest plugin of the harness, about 190 texts of up to 600 '
             'characters) is lexed and parsed by the specification (JaqalLex + JaqalParse) and compared with the real lexer and parser.',
        note='Trusted: harness/render.py (tokens -> text with offsets), harness/c02.py conv (S-expression -> tree), '
             'TLC. Bounded: token strings of length <= 5 (quick) / 6 (thorough) over small alphabets.',
        design='5/C02', technique='TLA+ pushdown-parser spec, TLC enumeration replayed into the parser, TLC trace validation'),
    'C04': dict(
        text='TLC enumerates every complete program of the AstEnum builder machine in a macro-rich and a body-rich '
             'configuration (<=2 macros calling each other, parameters used as qubit / number / index / loop count, calls '
             'from top level, seq, par, loop and subcircuit contexts, anonymous and exact native gate sets) and checks '
             'MeaningDefined/EraseAgrees on the spec; each program is rendered, parsed and expanded by the real '
             'expand_macros (with and without preserve_definitions) and TLC judges the projected result against '
             'JaqalSem!Meaning (call-by-substitution normal form): no macro calls, same meaning, annotations, header, '
             'imports, definitions, object-level references. Exhaustive inside the constants; sampled in the quick tier.',
        note='Trusted: harness/project.py, harness/render.py, TLC. Meaning is compared up to the Seq-in-Seq / Par-in-Par '
             'identification. Wrong-arity calls cannot be produced through the parser and are not covered.',
        design='5/C04', technique='TLA+ reference semantics (Meaning) + TLC-enumerated programs replayed into expand_macros + TLC trace validation'),
    'C05': dict(
        text='Programs using constants as register size, alias bounds/index, gate argument, qubit index, loop count, '
             'subcircuit count, inside a macro and shadowed by a parameter are enumerated by TLC (AstEnum) and crossed '
             'with override dictionaries over {0,1,2,3,1.5,2.0}; fill_in_let is run on each and TLC validates: no let '
             'reference left (syntactically and through the objects the references hang off), '
             'Meaning(out, {}) = Meaning(in, override), register table, macro meanings with parameters unbound, '
             'annotations, natives, imports, and acceptance of every valid (program, override) pair.',
        note='Trusted: projection/renderer/TLC. What must happen for INVALID overrides is decided under C14.',
        design='5/C05', technique='TLA+ reference semantics with override environment + TLC-enumerated programs x overrides replayed into fill_in_let + TLC trace validation'),
    'C07': dict(
        text='The AstEnum machine runs over a colliding name pool (let a / register q / alias r vs macro parameters a, q, '
             'r); the model program fixes the lexical binding of every occurrence, the rendered text has only names; the '
             'real parse is projected by object kind (Parameter / Constant / Register / NamedQubit) and TLC compares the '
             'meaning of the main body and of every macro body with the model, for macros defined before and after the '
             'body. Textually identical statements in different scopes are the non-trivial cases.',
        note='Trusted: projection/renderer/TLC. Names limited to the pool a, q, r, f, h, k, g.',
        design='5/C07', technique='TLA+ scoping model (binding by construction) + TLC-enumerated collision programs replayed into the parser + TLC validation'),
    'C03': dict(
        text='ExecEnum (AstEnum + JaqalExec) enumerates programs over an exact gate family (X H S R Pf CX SW CR CCX F, a gate '
             'without unitary, idle gates) on 3 qubits (also registers of 1 and of 4 qubits, gates on the highest qubit) reached directly, through a reversed slice alias, a named qubit, macro '
             'parameters and let-valued parameters, in loops and parallel blocks, and checks NormPreserved on the spec. Each '
             'program is run by run_jaqal_circuit with hook H3 on; TLC recomputes, with exact Gaussian-integer arithmetic '
             'over powers of sqrt 2 and the little-endian convention of the statement, the state of every visited '
             'subcircuit and compares it with the reported state_vector, the probabilities and the per-gate (qubits, '
             'arguments) events.',
        note='Trusted: harness/gates.py matrices (they are the gate set under test and are cross-checked by the vector clause), '
             'float->exact conversion with tolerance 1e-9, projection/renderer. Arbitrary real angles are covered only as '
             'arguments passed correctly (integer multiples of pi/2 here; one gate with a real parameter of 1e-6 must be reported as applied). '
             'Hook H3b reports the state after EVERY gate application: the events of a subcircuit are folded through the action '
             'ApplyGate of the specification and each must leave exactly the state the action leaves (step_vectors).',
        design='5/C03', technique='TLA+ exact emulator spec + TLC-enumerated programs replayed into the emulator + TLC trace validation of hook events and state vectors'),
    'C08': dict(
        text='ExecEnum enumerates nestings of loops (0, 1, 2, let-valued), sequential / parallel blocks, subcircuit blocks, '
             'explicit prepare/measure and a macro containing a subcircuit; TLC emits with each program the number of visits of '
             'the unrolled program. run_jaqal_circuit and parse_jaqal_output_list (on an output list of that length, '
             'strings and ints alternating) run under a CPU watchdog; TLC validates the visit sequence (readouts and hook '
             'H1), readout numbering, attribution, frequencies, non-zero probability of samples, termination; a configuration with two '
             'macros (a parameter named like the constant that a later macro uses as loop count) is executed under overrides (site run_ovr).',
        note='Asserted domain: programs C12 accepts in which every unrolled prepare/measure pair is a flat pair.'
             ' The transcription of the walker (WalkAlg) is model-checked for Safety, PrefixOK and Termination on 8 trees.',
        design='5/C08', technique='TLA+ walk semantics (Unroll/VisitsOf) + TLC-enumerated programs replayed into emulator and output parser + TLC trace validation'),
    'C12': dict(
        text='ExecEnum enumerates all placements of prepare_all / measure_all / a gate / subcircuit blocks over nested '
             'sequential blocks, parallel blocks, loops (0,1,2,let) and a macro; TLC computes DiscoverRule (the bracket rule '
             'written declaratively on the flat order) and validates accept/reject, the number of subcircuits and that the '
             'error message names a violated rule. Every second program is also executed on a backend object that has executed '
             'another program before (site run_shared) and judged exactly like a run on a fresh backend. The discovery walk itself is '
             'trace-validated through hook H2: one event per gate statement met, with the walker\'s state (a trace open?, subcircuits '
             'closed so far) before it handles the statement; the events must be the fold of the discovery machine over the flat '
             'order - a prefix of it when the program is rejected (discover_trace).',
        note='Bounded to <= 3 (quick) / 5 (thorough) nodes; message families are mapped to rules by literal patterns.',
        design='5/C12', technique='TLA+ declarative bracket rule + TLC-enumerated placements replayed into run_jaqal_circuit + TLC validation'),
    'C15': dict(
        text='For every subcircuit and readout of the C03 and C08 runs (emulator and hardware-output parser) TLC checks the '
             'views recorded from the result objects: as_str has n characters with qubit 0 leftmost, string keys enumerate '
             'all 2^n outcomes in integer order, string and integer views agree, probabilities are normalised, string and '
             'integer hardware outputs are interpreted identically, frequencies count the readouts; the same programs are also '
             'executed twice (site rerun) and over gate matrices that are unitary to 8 digits only (site approx: views must '
             'still be normalised and the sampler must not fail); one outcome is recorded 70 000 times by the emulator and by the '
             'output parser (site longrun: tallies beyond 16 bits). A consumer of the views is specified and bound as well: '
             'the validation comments of jaqalpaq.emulator._validator - JaqalValidate.tla has the line-level reader machine '
             '(section, subcircuit index, collected data, verdict), the writer and the comparison; ValidateEnum enumerates every '
             'text of <= 4 (quick) / 5 lines over a 12-line alphabet with reader invariants and the writer/reader/comparison round '
             'trip on abstract executions (every single-field corruption differs); every enumerated text goes through the real '
             'parse_jaqal_validation, and for executed programs the written comments, what is read back from program + comments and '
             'the answer of validate_jaqal_circuit to unchanged and single-word-corrupted comments are validated by TLC (Conform_Validate).',
        note='n in {1,2,3,4}; normalisation judged in floating point with 1e-9; probabilities in validation comments compared on a 2^-30 grid.',
        design='5/C15', technique='TLA+ bit-order operators + recorded result views validated by TLC'),
    'C01': dict(
        text='Machine view (Conform_RT): state (circuit, text), actions Generate and Parse. TLC enumerates programs with the AstEnum '
             'machine over headers with int / negative / float / exponent-repr / 10^16 literals, a let-sized register, strided '
             'let-bounded slices, single-qubit and whole aliases, an import, a macro with a parameter-indexed qubit, nested '
             'seq/par/loop/subcircuit with literal (also zero) and let counts. Each program is built through the parser and through the '
             'builder; generate -> parse -> generate is recorded and TLC validates that the SPEC lexer (JaqalLex) and grammar '
             '(JaqalParse) accept the generated text, that the real parser accepts it, that the re-parsed circuit projects to the '
             'identical AST, compares == and has the same meaning, and that the second text equals the first.',
        note='Trusted: projection/renderers/TLC; float(repr(x)) == x is not modelled. Bounded by the AstEnum constants.',
        design='5/C01', technique='TLA+ lexer+grammar+meaning specs; TLC-enumerated programs replayed through generator and parser; TLC trace validation'),
    'C06': dict(
        text='TLC builds every two-link alias chain (whole / index / slice with start, stop incl. -1 and beyond the size, step in '
             '{-1,1,2}, omitted and let-valued bounds) over registers of size 3-4 that JaqalSem!RegEntry declares valid, and AstEnum '
             'places gates on the last alias directly, through a macro parameter, with a let index and as a named qubit. Four '
             'consumers are replayed and validated by TLC against RegEntry/ArgV: resolve_qubit() of every argument object, '
             'fill_in_map (no alias left, same meaning), get_used_qubit_indices (circuit and statements), and the emulator (state '
             'vector and per-gate qubit indices through hook H3).',
        note='Empty aliases are unasserted; an ascending slice must stop at or before the end of its source (as the implementation '
             'requires). Depth 2, sizes 3-4.',
        design='5/C06', technique='TLA+ alias arithmetic (RegEntry/ArgV); TLC-enumerated chains replayed into four consumers; TLC trace validation'),
    'C09': dict(
        text='Static half: AstEnum programs with subcircuit blocks at top level, in loops, sequential blocks and macros (literal / '
             'let counts, mixed with explicit prepare/measure) go through expand_subcircuits and TLC validates no_sub_left, '
             'brackets (Meaning(out) = ExpandU(Meaning(in))), macro bodies, header, imports. Dynamic half: TLC computes the '
             'explicit spelling of every program (ExecEnum!RefExpandSub, with the theorem ExplicitSameTree checked on the spec), '
             'both spellings are executed with the same seed and TLC compares the recorded executions.',
        note='Brackets are judged on the meaning normal form (Seq-in-Seq identification), see DESIGN 5/C09.',
        design='5/C09', technique='TLA+ meaning + RefExpandSub; TLC-enumerated programs replayed into expand_subcircuits and the emulator; TLC validation'),
    'C10': dict(
        text='TLC enumerates every history of the JaqalLib machine (Chain=TRUE) over {expand_subcircuits, fill_in_let(ovr), '
             'fill_in_map, expand_macros} up to length 3 (quick) / 4 and programs in which all four passes have work to do; every '
             'history is replayed on a fresh parse under 4 override dictionaries; TLC (Conform_Lib) validates each call with the '
             'pass clauses, idempotence of repeated calls, legality of every result (nesting, and re-parse of its generated text '
             'to equal meaning; a third configuration spends 1500 programs on legality alone), equality of meaning of all orders of one pass set (commute), and parser flags vs explicit passes.',
        note='fill_in_map before fill_in_let is compared only without overrides (Applicable). One open known finding (nested '
             'sequential block left by expand_subcircuits).',
        design='5/C10', technique='TLA+ library-call history machine; TLC-enumerated histories replayed; TLC trace validation per call and per pass set'),
    'C11': dict(
        text='TLC enumerates every history of the JaqalLib machine with Chain=FALSE (9 operations: 5 transformations, used-qubit '
             'analysis, text generation, emulation, output parsing; length <= 3 quick / 4) and checks the frame condition '
             'InputUnchanged on the machine; every history is replayed on ONE circuit object; after every call the object is '
             'snapshotted (projection incl. native gate table and macro bodies, repr, == against a reference parse) and the result '
             'is compared with the same call on a fresh parse; TLC validates input_unchanged and same_as_fresh per step. '
             'Two operations come in two variants with other arguments (let substitution under two override dictionaries naming the '
             'same constants; subcircuit expansion with the circuit\'s own and with caller-supplied prepare / measure definitions), and a '
             'generic fingerprint of the whole object graph reachable from the shared circuit (type names, attribute names, container '
             'shapes, primitive values) is compared after every call (input_graph_unchanged).',
        note='A mutation must be visible through projection, repr, == or the attribute-level fingerprint of the reachable object graph.',
        design='5/C11', technique='TLA+ history machine with frame condition; TLC-enumerated histories replayed on a shared object; TLC trace validation'),
    'C13': dict(
        text='ExecEnum enumerates parallel blocks with gate / sequential-block branches over 3 qubits named directly, through an '
             'alias and through a macro parameter (also through nested macro calls whose formals share names), idle gates; TLC validates (i) rejection exactly when two branches overlap '
             '(JaqalExec!Overlap), (ii) get_used_qubit_indices of the circuit and of every top-level statement = UsedOf (busy = '
             'all, idle = none), (iii) order independence: every program is also run with the branches of all parallel blocks '
             'reversed and both state vectors must equal the specification\'s.',
        note='A bare statement containing a busy gate is unasserted (all qubits are not determined without the circuit).',
        design='5/C13', technique='TLA+ used-qubit / overlap operators; TLC-enumerated programs replayed into the analysis and the emulator; TLC validation'),
    'C14': dict(
        text='AstEnum enumerates programs with references that may be invalid (indices -1 / size-1 / size as literal, let, '
             'override, macro argument; slices outside the source, zero step, alias or index of a let, duplicates, undefined names, '
             'unknown gates, wrong arity / kinds under the exact gate set, a macro register parameter that shadows a register) x 6 override dictionaries; each pair goes through '
             'parse -> fill_in_let -> expand_macros -> run; TLC decides validity on the MODEL program (ValidAll) and validates: '
             'invalid => JaqalError at some stage, literal violations already at parse, valid (under declared and overriding '
             'values) => accepted, accepted => every applied gate acts on the resolved qubits.',
        note='One-directional for the pipeline stage. Gate environment stage: TLC enumerates every (injected dictionary, autoload flag, '
             'sequence of <= 2 (quick) / 3 usepulses imports over two pulse modules with an overlapping gate name, call) of the GateEnvEnum '
             'machine (theorems InjectedWins, LastImportWins, ImportIdempotent) and validates acceptance against the definition in effect, '
             'the native gate table and the definition the statement refers to.',
        design='5/C14', technique='TLA+ static validity (ValidAll, LiteralInvalid); TLC-enumerated programs replayed through the pipeline; TLC validation'),
    'C16': dict(
        text='(a) every character string of LexEnum (<= 3-4 chars over 15 representative characters), every token string of '
             'ParseEnum (each also with its numeric tokens respelled at the edge of their class: overflowing / underflowing floats, '
             'signed zero, > 64-bit integers) and ~1200 mutated example files go through parse_jaqal_string and run_jaqal_string under a CPU watchdog; '
             'TLC classifies each text with the spec lexer/grammar and validates exception types, positions, termination. '
             '(b) TLC enumerates every history of the JaqalProcess machine over a pool of 8 texts (valid, 3 syntax-error kinds, '
             'semantic error, static error, missing and present pulse module; importlib.util pre-imported or not), each history '
             'runs in a FRESH interpreter and TLC validates outcome classes and history independence.',
        note='Semantic errors are only required to be JaqalErrors.',
        design='5/C16', technique='TLA+ process-history machine + lexer/grammar specs; TLC-enumerated histories replayed in fresh interpreters; TLC validation'),
    'C17': dict(
        text='The behaviours of the AstEnum builder machine (= the Q-syntax frame stack) are rendered as Jaqal text, as '
             'object-oriented CircuitBuilder calls and as Q-syntax context-manager calls; TLC validates equality of the three '
             'circuits (projection and ==), the implicit prepare/measure wrapping (JaqalFront!QWrap) and, with some lets / the '
             'register left anonymous while user names look like auto-generated ones (__c0, __r0), freshness of generated names '
             'and equality up to that renaming.',
        note='No macros / aliases (not expressible in Q-syntax); one register.',
        design='5/C17', technique='TLA+ front-end model (QWrap, renaming); TLC-enumerated behaviours replayed through three front ends; TLC validation'),
    'C18': dict(
        text='TLC enumerates the GateCallEnum machine: every signature of <= 2 (quick) / 3 parameters over 5 kinds x every argument '
             'list over 14 value classes incl. one too many / too few; a real GateDefinition is called positionally, by keyword '
             'and with broken keyword sets; TLC validates acceptance against JaqalGateDef!CallOK, exception types and '
             'positional/keyword agreement; for the exact gate family it validates derived idle gates, the matrices of '
             'stretched gates against JaqalExec!Mat, and the idle companions of stretched gates (stretched_gates over a set with idle gates).',
        note='Value classes are represented by one object each.',
        design='5/C18', technique='TLA+ Fits/CallOK table; TLC-enumerated calls replayed into GateDefinition; TLC validation'),
    'C19': dict(
        text='AstEnum enumerates alternating sequential/parallel nestings to depth 4 (unequal branches, empty blocks, subcircuit '
             'blocks, loops also inside parallel blocks); TLC validates flat normal form, equality of the unit-time schedule '
             '(JaqalSem!Schedule as a bag of (gate instance, time step)), rejection of loops in parallel blocks, header and imports.',
        note='A loop is an opaque one-slot item on both sides. ',
        design='5/C19', technique='TLA+ schedule semantics; TLC-enumerated nestings replayed into the normaliser; TLC validation'),
    'C20': dict(
        text='Every enumerated program is paired with itself and with each single-point mutant (gate name, argument, qubit index, '
             'loop / subcircuit count, annotation, block kind, alias bound, register size, let value, dropped argument) and with pairs that differ in one numeric literal whose two values CPython '
             'hashes alike (-1/-2, 0/2^61-1, 1/2^61); both are '
             'parsed, == is evaluated both ways plus reflexivity and text round trip; TLC computes for the pair whether '
             'declarations and Meaning are identical and validates reflexive, symmetric, roundtrip, eq_implies_same, '
             'diff_implies_neq.',
        note='Mutants are produced on the AST and rendered.',
        design='5/C20', technique='TLA+ meaning/declaration comparison; TLC-enumerated programs and mutants replayed into ==; TLC validation'),
}

NOT_YET = {}


def main():
    props = [json.loads(l)['id'] for l in open(os.path.join(ROOT, 'properties.jsonl'))]
    hooks = []
    try:
        out = subprocess.run(['git', '-C', '/repo', 'log', '--format=%h %s'], capture_output=True, text=True).stdout
        hooks = [l.split()[0] for l in out.splitlines() if l.split(' ', 1)[1].startswith('verif-hook:')]
    except Exception:
        pass
    m = {
        'version': 1,
        'setup_cmd': './check setup',
        'hooks': {
            'guard': 'JAQALPAQ_VERIF_TRACE',
            'enable': 'export JAQALPAQ_VERIF_TRACE=1 (done by ./check); pure Python, no build step: checks import jaqalpaq from /repo/src',
            'baseline_off_cmd': 'cd /repo && env -u JAQALPAQ_VERIF_TRACE /venv/bin/python -m pytest -ra -q -p no:cacheprovider --timeout=900 --continue-on-collection-errors',
            'source_commits': hooks,
            'add_only': True,
        },
        'engines': [{'name': 'tlc', 'path': '/usr/local/bin/tlc', 'serves_properties': sorted(CHECKS),
                     'kind_free_text': 'TLC 1.8.0 explicit-state model checker on the TLA+ modules in /verif/spec; '
                                       'driven by /verif/check (Python harness under /verif/harness)'}],
        'checks': [],
        'notes': 'Every verdict is computed by TLC from operators in /verif/spec (DESIGN.md section 2). '
                 'Exit 2 = machinery failure. Known findings: /verif/known_findings.json.',
        'not_applicable': [],
    }
    for p in props:
        if p in CHECKS:
            c = CHECKS[p]
            m['checks'].append({
                'property_id': p,
                'quick_cmd': './check %s --tier quick' % p,
                'thorough_cmd': './check %s --tier thorough' % p,
                'evidence_file': '/verif/evidence/%s.json' % p,
                'replay_cmd_template': './check %s --replay {path}' % p,
                'engine': 'tlc',
                'level_claimed': {'category': 'model_checking', 'text': c['text'], 'design_ref': c['design']},
                'level_note': c['note'],
                'technique': c['technique'],
            })
        else:
            m['not_applicable'].append({'property_id': p, 'reason': NOT_YET.get(
                p, 'not claimed yet: the TLA+ check for this property (DESIGN.md section 5) is not built/validated in the committed tree')})
    with open(os.path.join(ROOT, 'MANIFEST.json'), 'w') as fh:
        json.dump(m, fh, indent=1)
    print('MANIFEST.json: %d checks, %d not claimed' % (len(m['checks']), len(m['not_applicable'])))


if __name__ == '__main__':
    main()
