"""Writes /verif/MANIFEST.json from the table below (run: /venv/bin/python -m harness.manifest)."""
import json
import os
import subprocess

ROOT = os.path.dirname(os.path.dirname(os.path.abspath(__file__)))

CHECKS = {
    'C02': dict(
        text='TLC enumerates every viable token prefix of the ParseEnum machine (three alphabets: grammar, header, '
             'layout; plus one token past the first offending one) and checks NoDrop / LayoutErase / DeadStaysDead on the '
             'specification; every enumerated string and every single-token near miss of every accepted one is parsed by '
             'the real parser and the recorded outcome (class, tree, error position) is validated by TLC against '
             'JaqalParse!Step folded over the tokens. Exhaustive inside the stated token-length bound, nothing beyond.',
        note='Trusted: harness/render.py (tokens -> text with offsets), harness/c02.py conv (S-expression -> tree), '
             'TLC. Bounded: token strings of length <= 5 (quick) / 6 (thorough) over small alphabets.',
        design='5/C02', technique='TLA+ pushdown-parser spec, TLC enumeration replayed into the parser, TLC trace validation'),
}

NOT_YET = {}


def main():
    props = [json.loads(l)['id'] for l in open(os.path.join(ROOT, 'properties.jsonl'))]
    hooks = []
    try:
        out = subprocess.run(['git', '-C', '/repo', 'log', '--format=%h %s'], capture_output=True, text=True).stdout
        hooks = [l.split()[0] for l in out.splitlines() if l.split(' ', 1)[1].startswith('verif-hook:')]
    except Exception:
        pass
    m = {
        'version': 1,
        'setup_cmd': './check setup',
        'hooks': {
            'guard': 'JAQALPAQ_VERIF_TRACE',
            'enable': 'export JAQALPAQ_VERIF_TRACE=1 (done by ./check); pure Python, no build step: checks import jaqalpaq from /repo/src',
            'baseline_off_cmd': 'cd /repo && env -u JAQALPAQ_VERIF_TRACE /venv/bin/python -m pytest -ra -q -p no:cacheprovider --timeout=900 --continue-on-collection-errors',
            'source_commits': hooks,
            'add_only': True,
        },
        'engines': [{'name': 'tlc', 'path': '/usr/local/bin/tlc', 'serves_properties': sorted(CHECKS),
                     'kind_free_text': 'TLC 1.8.0 explicit-state model checker on the TLA+ modules in /verif/spec; '
                                       'driven by /verif/check (Python harness under /verif/harness)'}],
        'checks': [],
        'notes': 'Every verdict is computed by TLC from operators in /verif/spec (DESIGN.md section 2). '
                 'Exit 2 = machinery failure. Known findings: /verif/known_findings.json.',
        'not_applicable': [],
    }
    for p in props:
        if p in CHECKS:
            c = CHECKS[p]
            m['checks'].append({
                'property_id': p,
                'quick_cmd': './check %s --tier quick' % p,
                'thorough_cmd': './check %s --tier thorough' % p,
                'evidence_file': '/verif/evidence/%s.json' % p,
                'replay_cmd_template': './check %s --replay {path}' % p,
                'engine': 'tlc',
                'level_claimed': {'category': 'model_checking', 'text': c['text'], 'design_ref': c['design']},
                'level_note': c['note'],
                'technique': c['technique'],
            })
        else:
            m['not_applicable'].append({'property_id': p, 'reason': NOT_YET.get(
                p, 'not claimed yet: the TLA+ check for this property (DESIGN.md section 5) is not built/validated in the committed tree')})
    with open(os.path.join(ROOT, 'MANIFEST.json'), 'w') as fh:
        json.dump(m, fh, indent=1)
    print('MANIFEST.json: %d checks, %d not claimed' % (len(m['checks']), len(m['not_applicable'])))


if __name__ == '__main__':
    main()
