"""Writes /verif/MANIFEST.json from the table below (run: /venv/bin/python -m harness.manifest)."""
import json
import os
import subprocess

ROOT = os.path.dirname(os.path.dirname(os.path.abspath(__file__)))

CHECKS = {
    'C02': dict(
        text='TLC enumerates every viable token prefix of the ParseEnum machine (three alphabets: grammar, header, '
             'layout; plus one token past the first offending one) and checks NoDrop / LayoutErase / DeadStaysDead on the '
             'specification; every enumerated string and every single-token near miss of every accepted one is parsed by '
             'the real parser and the recorded outcome (class, tree, error position) is validated by TLC against '
             'JaqalParse!Step folded over the tokens. Exhaustive inside the stated token-length bound, nothing beyond.',
        note='Trusted: harness/render.py (tokens -> text with offsets), harness/c02.py conv (S-expression -> tree), '
             'TLC. Bounded: token strings of length <= 5 (quick) / 6 (thorough) over small alphabets.',
        design='5/C02', technique='TLA+ pushdown-parser spec, TLC enumeration replayed into the parser, TLC trace validation'),
    'C04': dict(
        text='TLC enumerates every complete program of the AstEnum builder machine in a macro-rich and a body-rich '
             'configuration (<=2 macros calling each other, parameters used as qubit / number / index / loop count, calls '
             'from top level, seq, par, loop and subcircuit contexts, anonymous and exact native gate sets) and checks '
             'MeaningDefined/EraseAgrees on the spec; each program is rendered, parsed and expanded by the real '
             'expand_macros (with and without preserve_definitions) and TLC judges the projected result against '
             'JaqalSem!Meaning (call-by-substitution normal form): no macro calls, same meaning, annotations, header, '
             'imports, definitions, object-level references. Exhaustive inside the constants; sampled in the quick tier.',
        note='Trusted: harness/project.py, harness/render.py, TLC. Meaning is compared up to the Seq-in-Seq / Par-in-Par '
             'identification. Wrong-arity calls cannot be produced through the parser and are not covered.',
        design='5/C04', technique='TLA+ reference semantics (Meaning) + TLC-enumerated programs replayed into expand_macros + TLC trace validation'),
    'C05': dict(
        text='Programs using constants as register size, alias bounds/index, gate argument, qubit index, loop count, '
             'subcircuit count, inside a macro and shadowed by a parameter are enumerated by TLC (AstEnum) and crossed '
             'with override dictionaries over {0,1,2,3,1.5,2.0}; fill_in_let is run on each and TLC validates: no let '
             'reference left (syntactically and through the objects the references hang off), '
             'Meaning(out, {}) = Meaning(in, override), register table, macro meanings with parameters unbound, '
             'annotations, natives, imports, and acceptance of every valid (program, override) pair.',
        note='Trusted: projection/renderer/TLC. What must happen for INVALID overrides is decided under C14.',
        design='5/C05', technique='TLA+ reference semantics with override environment + TLC-enumerated programs x overrides replayed into fill_in_let + TLC trace validation'),
    'C07': dict(
        text='The AstEnum machine runs over a colliding name pool (let a / register q / alias r vs macro parameters a, q, '
             'r); the model program fixes the lexical binding of every occurrence, the rendered text has only names; the '
             'real parse is projected by object kind (Parameter / Constant / Register / NamedQubit) and TLC compares the '
             'meaning of the main body and of every macro body with the model, for macros defined before and after the '
             'body. Textually identical statements in different scopes are the non-trivial cases.',
        note='Trusted: projection/renderer/TLC. Names limited to the pool a, q, r, f, h, k, g.',
        design='5/C07', technique='TLA+ scoping model (binding by construction) + TLC-enumerated collision programs replayed into the parser + TLC validation'),
    'C03': dict(
        text='ExecEnum (AstEnum + JaqalExec) enumerates programs over an exact gate family (X H S R Pf CX SW CR CCX F, a gate '
             'without unitary, idle gates) on 3 qubits reached directly, through a reversed slice alias, a named qubit, macro '
             'parameters and let-valued parameters, in loops and parallel blocks, and checks NormPreserved on the spec. Each '
             'program is run by run_jaqal_circuit with hook H3 on; TLC recomputes, with exact Gaussian-integer arithmetic '
             'over powers of sqrt 2 and the little-endian convention of the statement, the state of every visited '
             'subcircuit and compares it with the reported state_vector, the probabilities and the per-gate (qubits, '
             'arguments) events.',
        note='Trusted: harness/gates.py matrices (they are the gate set under test and are cross-checked by the vector clause), '
             'float->exact conversion with tolerance 1e-9, projection/renderer. Arbitrary real angles are covered only as '
             'arguments passed correctly (integer multiples of pi/2 here).',
        design='5/C03', technique='TLA+ exact emulator spec + TLC-enumerated programs replayed into the emulator + TLC trace validation of hook events and state vectors'),
    'C08': dict(
        text='ExecEnum enumerates nestings of loops (0, 1, 2, let-valued), sequential / parallel blocks, subcircuit blocks, '
             'explicit prepare/measure and a macro containing a subcircuit; TLC emits with each program the number of visits of '
             'the unrolled program. run_jaqal_circuit and parse_jaqal_output_list (on an output list of that length, '
             'strings and ints alternating) run under a CPU watchdog; TLC validates the visit sequence (readouts and hook '
             'H1), readout numbering, attribution, frequencies, non-zero probability of samples, termination.',
        note='Asserted domain: programs C12 accepts in which every unrolled prepare/measure pair is a flat pair. One open '
             'known finding (readout per prepare reached).',
        design='5/C08', technique='TLA+ walk semantics (Unroll/VisitsOf) + TLC-enumerated programs replayed into emulator and output parser + TLC trace validation'),
    'C12': dict(
        text='ExecEnum enumerates all placements of prepare_all / measure_all / a gate / subcircuit blocks over nested '
             'sequential blocks, parallel blocks, loops (0,1,2,let) and a macro; TLC computes DiscoverRule (the bracket rule '
             'written declaratively on the flat order) and validates accept/reject, the number of subcircuits and that the '
             'error message names a violated rule.',
        note='Bounded to <= 3 (quick) / 5 (thorough) nodes; message families are mapped to rules by literal patterns.',
        design='5/C12', technique='TLA+ declarative bracket rule + TLC-enumerated placements replayed into run_jaqal_circuit + TLC validation'),
    'C15': dict(
        text='For every subcircuit and readout of the C03 and C08 runs (emulator and hardware-output parser) TLC checks the '
             'views recorded from the result objects: as_str has n characters with qubit 0 leftmost, string keys enumerate '
             'all 2^n outcomes in integer order, string and integer views agree, probabilities are normalised, string and '
             'integer hardware outputs are interpreted identically, frequencies count the readouts.',
        note='n in {2,3}; normalisation judged in floating point with 1e-9.',
        design='5/C15', technique='TLA+ bit-order operators + recorded result views validated by TLC'),
}

NOT_YET = {}


def main():
    props = [json.loads(l)['id'] for l in open(os.path.join(ROOT, 'properties.jsonl'))]
    hooks = []
    try:
        out = subprocess.run(['git', '-C', '/repo', 'log', '--format=%h %s'], capture_output=True, text=True).stdout
        hooks = [l.split()[0] for l in out.splitlines() if l.split(' ', 1)[1].startswith('verif-hook:')]
    except Exception:
        pass
    m = {
        'version': 1,
        'setup_cmd': './check setup',
        'hooks': {
            'guard': 'JAQALPAQ_VERIF_TRACE',
            'enable': 'export JAQALPAQ_VERIF_TRACE=1 (done by ./check); pure Python, no build step: checks import jaqalpaq from /repo/src',
            'baseline_off_cmd': 'cd /repo && env -u JAQALPAQ_VERIF_TRACE /venv/bin/python -m pytest -ra -q -p no:cacheprovider --timeout=900 --continue-on-collection-errors',
            'source_commits': hooks,
            'add_only': True,
        },
        'engines': [{'name': 'tlc', 'path': '/usr/local/bin/tlc', 'serves_properties': sorted(CHECKS),
                     'kind_free_text': 'TLC 1.8.0 explicit-state model checker on the TLA+ modules in /verif/spec; '
                                       'driven by /verif/check (Python harness under /verif/harness)'}],
        'checks': [],
        'notes': 'Every verdict is computed by TLC from operators in /verif/spec (DESIGN.md section 2). '
                 'Exit 2 = machinery failure. Known findings: /verif/known_findings.json.',
        'not_applicable': [],
    }
    for p in props:
        if p in CHECKS:
            c = CHECKS[p]
            m['checks'].append({
                'property_id': p,
                'quick_cmd': './check %s --tier quick' % p,
                'thorough_cmd': './check %s --tier thorough' % p,
                'evidence_file': '/verif/evidence/%s.json' % p,
                'replay_cmd_template': './check %s --replay {path}' % p,
                'engine': 'tlc',
                'level_claimed': {'category': 'model_checking', 'text': c['text'], 'design_ref': c['design']},
                'level_note': c['note'],
                'technique': c['technique'],
            })
        else:
            m['not_applicable'].append({'property_id': p, 'reason': NOT_YET.get(
                p, 'not claimed yet: the TLA+ check for this property (DESIGN.md section 5) is not built/validated in the committed tree')})
    with open(os.path.join(ROOT, 'MANIFEST.json'), 'w') as fh:
        json.dump(m, fh, indent=1)
    print('MANIFEST.json: %d checks, %d not claimed' % (len(m['checks']), len(m['not_applicable'])))


if __name__ == '__main__':
    main()
