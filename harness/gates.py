"""The exact native gate family as real GateDefinition objects (mirrors spec/JaqalGates.tla; the
correspondence of signatures and matrices is validated by TLC in the C03/C18 checks).
Convention (property C03): bit j of a matrix index <-> the gate's j-th qubit argument."""
import numpy as np

from jaqalpaq.core.gatedef import GateDefinition, BusyGateDefinition, add_idle_gates
from jaqalpaq.core.parameter import Parameter, ParamType

Q, I, FL = ParamType.QUBIT, ParamType.INT, ParamType.FLOAT


def _perm(n, f):
    m = np.zeros((2 ** n, 2 ** n), dtype=complex)
    for col in range(2 ** n):
        bits = [(col >> j) & 1 for j in range(n)]
        out = f(bits)
        m[sum(b << j for j, b in enumerate(out)), col] = 1
    return m


def u_X():
    return np.array([[0, 1], [1, 0]], dtype=complex)


def u_H():
    return np.array([[1, 1], [1, -1]], dtype=complex) / np.sqrt(2)


def u_S():
    return np.array([[1, 0], [0, 1j]], dtype=complex)


def u_R(k):
    return np.array([[1, 0], [0, 1j ** (int(k) % 4)]], dtype=complex)


def u_Pf(t):
    # the same phase gate with a REAL parameter: diag(1, exp(i pi t / 2)); equals u_R for integral t
    return np.array([[1, 0], [0, np.exp(0.5j * np.pi * float(t))]], dtype=complex)


def u_CX():
    return _perm(2, lambda b: [b[0], b[1] ^ b[0]])


def u_SW():
    return _perm(2, lambda b: [b[1], b[0]])


def u_CR(k):
    m = np.eye(4, dtype=complex)
    m[3, 3] = 1j ** (int(k) % 4)
    return m


def u_CCX():
    return _perm(3, lambda b: [b[0], b[1], b[2] ^ (b[0] & b[1])])


def u_F():
    return _perm(3, lambda b: [b[0], b[2], b[1]] if b[0] else list(b))


def P(name, kind):
    return Parameter(name, kind)


def active_gates():
    gs = [
        GateDefinition('X', [P('q', Q)], ideal_unitary=u_X),
        GateDefinition('H', [P('q', Q)], ideal_unitary=u_H),
        GateDefinition('S', [P('q', Q)], ideal_unitary=u_S),
        GateDefinition('N', [P('q', Q)]),
        GateDefinition('R', [P('q', Q), P('k', I)], ideal_unitary=u_R),
        GateDefinition('Pf', [P('q', Q), P('t', FL)], ideal_unitary=u_Pf),
        GateDefinition('CX', [P('c', Q), P('t', Q)], ideal_unitary=u_CX),
        GateDefinition('SW', [P('a', Q), P('b', Q)], ideal_unitary=u_SW),
        GateDefinition('CR', [P('c', Q), P('t', Q), P('k', I)], ideal_unitary=u_CR),
        GateDefinition('CCX', [P('a', Q), P('b', Q), P('t', Q)], ideal_unitary=u_CCX),
        GateDefinition('F', [P('c', Q), P('a', Q), P('b', Q)], ideal_unitary=u_F),
    ]
    return {g.name: g for g in gs}


def busy_gates():
    return {'prepare_all': BusyGateDefinition('prepare_all'), 'measure_all': BusyGateDefinition('measure_all')}


def exact_gates():
    d = dict(busy_gates())
    d.update(add_idle_gates(active_gates()))
    return d


def select(names):
    """inject_pulses dictionary for the gate names a model header lists"""
    allg = exact_gates()
    return {n: allg[n] for n in names}
