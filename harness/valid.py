"""Validation comments (jaqalpaq.emulator._validator) - recording side of spec/JaqalValidate.tla.

Stage A (spec -> code): TLC enumerates every text of the ValidateEnum line machine (reader verdict "ok" so far, one
more line); each is handed to the real parse_jaqal_validation and TLC (Conform_Validate, site vread) validates the
verdict and everything collected.  TLC also checks the writer/reader/comparison round trip on abstract executions.
Stage B (code -> spec): for executed programs, the text generate_jaqal_validation writes (site vgen), what
parse_jaqal_validation reads back from program + comments (site vread), and what validate_jaqal_circuit answers for the
unchanged and for single-word-corrupted comments (site vcheck) are recorded; TLC judges all of them.

No expectation is computed here: tokenize() is lexical (strip / startswith / split / character classes), pn() is the
float -> exact conversion (tolerance 1e-6 on a 2^30 grid)."""
import json
import math
import random

import numpy

from . import core, impl, passes, render

PSCALE = 2 ** 30


def pn(x):
    try:
        p = float(x)
    except (TypeError, ValueError):
        return -1
    if not math.isfinite(p) or p < 0 or p > 1:
        return -1
    v = p * PSCALE
    return int(round(v)) if abs(v - round(v)) < 1e-6 else -1


def word(w):
    ascii_digits = w != '' and all(ch in '0123456789' for ch in w)
    nat = ascii_digits and int(w) <= 10 ** 6
    return {'s': w, 'k': 'nat' if nat else ('alpha' if w.isalpha() and w.isascii() else 'other'),
            'n': int(w) if nat else -1, 'b': [int(ch) for ch in w] if w and all(ch in '01' for ch in w) else [],
            'pn': pn(w) if not w.isalpha() else -1}


def tokenize(text):
    out = []
    for line in text.split('\n'):
        line = line.strip()
        if not line.startswith('//'):
            out.append({'cm': False, 's': '', 'w': []})
            continue
        s = line[2:].strip()
        out.append({'cm': True, 's': s, 'w': [word(w) for w in s.split()]})
    return out


def cls_of(e):
    if e is None:
        return 'ok'
    if isinstance(e, impl.Timeout):
        return 'timeout'
    if type(e) is ValueError:
        return 'value_error'
    return 'other:' + type(e).__name__


def project_expected(exp):
    d = {'hasMeas': 'true_str_list' in exp, 'meas': [], 'hasProb': 'str_prob' in exp, 'sprob': [], 'iprob': []}
    if d['hasMeas']:
        d['meas'] = [{'s': s, 'v': int(v), 'sub': int(k)} for s, v, k in
                     zip(exp['true_str_list'], exp['true_int_list'], exp['subcirc_list'])]
        if not len(exp['true_str_list']) == len(exp['true_int_list']) == len(exp['subcirc_list']):
            d['meas'].append({'s': '<lists of different length>', 'v': -1, 'sub': -1})
    if d['hasProb']:
        ks = sorted(exp['str_prob'])
        d['sprob'] = [[{'s': s, 'pn': pn(p)} for s, p in exp['str_prob'][k].items()] for k in ks]
        d['iprob'] = [[{'v': int(v), 'pn': pn(p)} for v, p in exp['int_prob'][k].items()] for k in sorted(exp['int_prob'])]
        if ks != list(range(len(ks))) or sorted(exp['int_prob']) != ks:
            d['sprob'].append([{'s': '<keys not 0..n-1>', 'pn': -1}])
    return d


def read_case(cid, text):
    from jaqalpaq.emulator._validator import parse_jaqal_validation
    exp, e = impl.with_cpu_limit(lambda: parse_jaqal_validation(text), seconds=5)
    obs = {'cls': cls_of(e), 'hasMeas': False, 'meas': [], 'hasProb': False, 'sprob': [], 'iprob': []}
    if e is None:
        obs.update(project_expected(exp))
    return {'id': cid, 'site': 'vread', 'nq': 0, 'lines': tokenize(text), 'rd': [], 'pr': [], 'obs': obs, 'text': text}


def _read_enum(item):
    n, texts = item
    return read_case('enum/%d' % n, '\n'.join(texts))


def corruptions(vtxt, rng, k):
    """single-word corruptions of three-word comment lines (an input transformation; TLC judges the result)"""
    lines = vtxt.split('\n')
    cand = [j for j, l in enumerate(lines) if l.startswith('// ') and len(l[3:].split()) == 3]
    out = []
    for j in rng.sample(cand, min(k, len(cand))):
        ws = lines[j][3:].split()
        f = rng.randrange(3)
        if f == 0:
            ws[0] = ('1' if ws[0][0] == '0' else '0') + ws[0][1:]
        elif f == 1 or '.' not in ws[2]:
            ws[f] = str(int(ws[f]) + 1) if ws[f].isdigit() else ws[f] + '1'
        else:
            p = float(ws[2])
            ws[2] = repr(p - 0.5 if p >= 0.5 else p + 0.5)
        out.append('\n'.join(lines[:j] + ['// ' + ' '.join(ws)] + lines[j + 1:]))
    return out


def run_job(job):
    """one executed program -> cases of the sites vgen, vread, vcheck"""
    from jaqalpaq.run import run_jaqal_circuit
    from jaqalpaq.emulator._validator import generate_jaqal_validation, parse_jaqal_validation, validate_jaqal_circuit
    prog = job['prog']
    text = render.render_prog(prog)
    pout, circ = passes.outcome(lambda: passes.parse_prog(prog, text))
    if circ is None:
        return []
    seed = job['seed']

    def fresh():
        numpy.random.seed(seed)
        return run_jaqal_circuit(circ)
    exe, e = impl.with_cpu_limit(fresh, seconds=5)
    if e is not None:
        return []
    nq = job['nq']
    rd = [{'sub': int(r.subcircuit.index), 'value': int(r.as_int)} for r in exe.readouts]
    pr = [[pn(p) for p in sc.probability_by_int] for sc in exe.subcircuits]
    base = {'nq': nq, 'rd': rd, 'pr': pr}
    cases = []
    vtxt, e = impl.with_cpu_limit(lambda: generate_jaqal_validation(exe), seconds=5)
    if e is not None:
        cases.append(dict(base, id=job['id'] + '/vgen', site='vgen', lines=[], obs={'cls': cls_of(e)}, text=text))
        return cases
    cases.append(dict(base, id=job['id'] + '/vgen', site='vgen', lines=tokenize(vtxt), obs={'cls': 'ok'}, text=text + '\n' + vtxt))
    full = text + '\n' + vtxt
    cases.append(dict(read_case(job['id'] + '/vread', full), nq=nq))
    rng = random.Random(seed)
    for m, vt in enumerate([vtxt] + corruptions(vtxt, rng, job.get('corruptions', 3))):
        ftxt = text + '\n' + vt
        exp, e = impl.with_cpu_limit(lambda: parse_jaqal_validation(ftxt), seconds=5)
        if e is not None:
            continue

        def check():
            numpy.random.seed(seed)
            return validate_jaqal_circuit(circ, exp)
        res, e = impl.with_cpu_limit(check, seconds=5)
        obs = {'cls': cls_of(e), 'validated': [str(x) for x in res] if e is None else [], 'msg': str(e)[:120] if e else ''}
        cases.append(dict(base, id='%s/vcheck/%d' % (job['id'], m), site='vcheck', lines=tokenize(ftxt), obs=obs, text=ftxt))
    return cases


OWNED = {'read_verdict', 'read_sections', 'read_readouts', 'read_probabilities', 'written_lines', 'written_reads_back',
         'agree_accepted', 'difference_rejected'}


def stage(rep, wd, jobs, tier):
    # ---- the specification itself: reader invariants on every enumerated text, writer/reader/comparison round trip
    maxl = 4 if tier == 'quick' else 5
    sink = core.Sink('<<"VL", ', 6000 if tier == 'quick' else 120000)
    cfg = ('SPECIFICATION Spec\nCONSTANTS\n Mode = "lines"\n MaxLines = %d\nINVARIANT Emit\nINVARIANT ResetInv\n'
           'INVARIANT SubIndexInv\nINVARIANT PrefixInv\nINVARIANT NoneInv\n' % maxl)
    res = core.run_tlc('ValidateEnum', cfg, wd, sink=sink, timeout=1800)
    rep.add_model_check('ValidateEnum[lines <= %d] ResetInv SubIndexInv PrefixInv NoneInv' % maxl, res)
    cfg = 'SPECIFICATION Spec\nCONSTANTS\n Mode = "exec"\n MaxLines = %d\nINVARIANT RoundTripInv\n' % (3 if tier == 'quick' else 4)
    res = core.run_tlc('ValidateEnum', cfg, wd, timeout=1800)
    rep.add_model_check('ValidateEnum[abstract executions] RoundTripInv (written = read back; every corruption differs)', res)
    texts = []
    for line in sink.all_lines():
        texts.append(json.loads(json.loads(line[len('<<"VL", '):].rstrip()[:-2])))
    rep.cov['validation_texts_enumerated'] = sink.total
    recs = core.pool_map(_read_enum, list(enumerate(texts)), chunksize=200)
    # ---- executions
    for cs in core.pool_map(run_job, jobs, chunksize=20):
        recs.extend(cs)
    verdicts, stats = core.validate('Conform_Validate', recs, wd, shard_size=1500)
    bysite = {}
    for r in recs:
        bysite.setdefault(r['site'], []).append(r)
    first = True
    for site, rs in sorted(bysite.items()):
        ids = {r['id'] for r in rs}
        rep.add_validation(site, rs, {k: v for k, v in verdicts.items() if k in ids},
                           stats if first else {'states': 0, 'transitions': 0}, owned=OWNED)
        first = False
    for site in ('vgen', 'vread', 'vcheck'):
        if site not in bysite:
            raise core.MachineryError('validation stage: no case of site %s' % site)
    info = rep.cov.get('info', {})
    for key in ('vcheck:agree', 'vcheck:differ', 'vread:ok', 'vread:value_error', 'vgen:ok'):
        if not sum(v for k, v in info.items() if k.endswith(':' + key)):
            raise core.MachineryError('validation stage: clause antecedent %s never exercised (vacuity control): %r' % (key, info))
    rep.sample({'site': 'vcheck', 'text': recs[-1]['text'][-400:], 'outcome': recs[-1]['obs']['cls']})
