"""./check setup: syntax-check every specification module with SANY, smoke-test TLC and the binding."""
import glob
import os
import subprocess
import sys

from . import core


def main():
    ok = True
    mods = sorted(glob.glob(os.path.join(core.SPEC, '*.tla')))
    for m in mods:
        p = subprocess.run(['java', '-cp', core.TLA_JAR, 'tla2sany.SANY', m], cwd=core.SPEC,
                           capture_output=True, text=True)
        bad = ('error' in p.stdout.lower() and 'Semantic errors' in p.stdout) or 'Fatal' in p.stdout \
            or 'Parse Error' in p.stdout or p.returncode != 0
        print('SANY %-28s %s' % (os.path.basename(m), 'FAILED' if bad else 'ok'))
        if bad:
            print(p.stdout[-2000:])
            ok = False
    from . import impl
    impl.guard_repo()
    os.makedirs(core.EVID, exist_ok=True)
    print('setup', 'ok' if ok else 'FAILED')
    return 0 if ok else 2
