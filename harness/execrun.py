"""Recording executions of the real emulator / output parser (no expectations computed here)."""
import math

import numpy

from . import impl, project

FAMILIES = (
    ('not supported in loops', 'loop_rule'),
    ('must follow a measure_all', 'measure_without_prepare'),
    ('must follow a prepare_all', 'gate_outside'),
    ('Parallel branches of block acting on the same qubit', 'overlap'),
)


def family(msg):
    for pat, fam in FAMILIES:
        if pat in msg:
            return fam
    return 'other'


def exact(vec):
    """numpy amplitudes -> (ok, k, [[re, im]...]) with vec = ints / sqrt(2)**k (least k), tolerance 1e-9"""
    v = numpy.asarray(vec, dtype=complex)
    for k in range(0, 41):
        sc = v * (math.sqrt(2) ** k)
        re, im = numpy.round(sc.real), numpy.round(sc.imag)
        if numpy.allclose(sc.real, re, atol=1e-9, rtol=0) and numpy.allclose(sc.imag, im, atol=1e-9, rtol=0):
            return True, k, [[int(a), int(b)] for a, b in zip(re, im)]
    return False, 0, [[0, 0] for _ in v]


def bits(s):
    return [int(ch) for ch in s]


def as_int_arg(v):
    try:
        if isinstance(v, float):
            return int(v) if v == int(v) else -999
        return int(v)
    except Exception:
        return -999


EMPTY_OBS = {'cls': 'ok', 'family': '', 'msg': '', 'subs': [], 'readouts': [], 'visits': [], 'applies': [], 'applied': [], 'discover': [], 'hooked': False}


def observe(fn, seed=0, limit=3):
    """fn() returns an ExecutionResult; returns the observation record"""
    from jaqalpaq import _verif_trace
    _verif_trace.drain()
    numpy.random.seed(seed)
    obs = dict(EMPTY_OBS, hooked=bool(_verif_trace.ENABLED), subs=[], readouts=[], visits=[], applies=[], applied=[], discover=[])
    res, e = impl.with_cpu_limit(fn, seconds=limit)
    events = _verif_trace.drain()
    if e is not None:
        obs['cls'] = 'timeout' if isinstance(e, impl.Timeout) else impl.classify_exc(e)
        obs['msg'] = ('%s: %s' % (type(e).__name__, e))[:200]
        obs['family'] = family(str(e)) if obs['cls'] == 'jaqal_error' else ''
        return obs
    subs = []
    for sc in res.subcircuits:
        d = {'exact': False, 'k': 0, 'vec': [], 'probs_match': True, 'normalised': True, 'views_agree': True,
             'str_keys': [], 'readouts': [], 'freq': []}
        nq = len(sc.measured_qubits)
        if hasattr(sc, 'state_vector'):
            ok, k, vec = exact(sc.state_vector)
            d.update(exact=ok, k=k, vec=vec)
            p = numpy.asarray(sc.simulated_probability_by_int, dtype=float)
            if ok:
                want = numpy.array([(a * a + b * b) / 2.0 ** k for a, b in vec])
                d['probs_match'] = bool(numpy.allclose(p, want, atol=1e-9, rtol=0))
            d['normalised'] = bool(abs(p.sum() - 1) < 1e-9 and (p >= 0).all())
            bs = sc.simulated_probability_by_str
            d['str_keys'] = [bits(key) for key in bs.keys()]
            d['views_agree'] = bool(list(bs.values()) == list(p))
        else:
            d['exact'] = True
            d['vec'] = [[0, 0]] * (2 ** nq)
        rf = sc.relative_frequency_by_int
        rs = sc.relative_frequency_by_str
        if not hasattr(sc, 'state_vector'):
            d['str_keys'] = [bits(key) for key in rs.keys()]
        d['views_agree'] = bool(d['views_agree'] and list(rs.values()) == list(rf)
                                and [bits(key) for key in rs.keys()] == d['str_keys'])
        d['freq'] = [int(x) for x in rf]
        d['readouts'] = [int(r.as_int) for r in sc.readouts]
        subs.append(d)
    obs['subs'] = subs
    obs['readouts'] = [{'sub': int(r.subcircuit.index), 'value': int(r.as_int), 'str': bits(r.as_str), 'index': int(r.index)}
                       for r in res.readouts]
    for ev, f in events:
        if ev == 'visit':
            obs['visits'].append({'sub': int(f['sub']), 'readout': int(f['readout']), 'value': int(f['value'])})
        elif ev == 'discover':
            # hook H2: subcircuit discovery meets a gate statement; the walker's state BEFORE it handles the statement
            obs['discover'].append({'gate': str(f['gate']), 'open': bool(f['open']), 'closed': int(f['closed'])})
        elif ev == 'applied':
            # the state AFTER the gate has been applied (hook H3b), in exact form
            ok, k, vec = exact(f['vec'])
            obs['applied'].append({'sub': int(f['sub']), 'gate': str(f['gate']), 'exact': ok, 'k': k, 'vec': vec})
        elif ev == 'apply':
            obs['applies'].append({'sub': int(f['sub']), 'gate': str(f['gate']), 'qind': [as_int_arg(q) for q in f['qind']],
                                   'argv': [as_int_arg(a) for a in f['argv']]})
    return obs
