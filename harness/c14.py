"""C14 - no program is accepted with a reference that cannot be honoured.

TLC enumerates (AstEnum, configuration H_V/T_V) programs containing references that may be invalid: indices -1, size-1,
size given as literal / let / overriding value / macro argument, alias slices outside their source, zero steps, aliases
and indices of a let, undefined and doubly defined identifiers, unknown gates, wrong arity and kinds under an exact
native gate set.  Each (program, override) pair is pushed through parse -> fill_in_let -> expand_macros -> run; TLC
(Conform_Valid) decides validity on the MODEL program (JaqalSem!ValidAll) and validates: invalid => rejected with
JaqalError at some stage, literal violations already at parse, valid => accepted, and for accepted programs every
applied gate acts on the qubits the specification resolves (hook H3).

Gate environment (JaqalGateEnv / GateEnvEnum): TLC enumerates every (injected dictionary, autoload flag, sequence of
usepulses imports over two pulse modules with an overlapping gate name, call); each is parsed for real and TLC
(Conform_GateEnv) validates acceptance against the definition IN EFFECT (injected over imported, later import over
earlier), the circuit's native gate table and the definition the statement refers to."""
import json
import random

from . import core, passes, impl, project, render, execrun

PROP = 'C14'
CONFIGS = {
    'quick': [('refs', ('H_V', 'M_V', 'T_V', 'O_V', 3, 2, 'NoGates'), 2200)],
    'thorough': [('refs', ('H_V', 'M_V', 'T_V', 'O_V', 4, 2, 'NoGates'), 60000)],
}
OVRS = [[], [('k', 2)], [('a', 3)], [('a', -1)], [('k', 4)], [('a', 0), ('k', 1)]]


def run_pipeline(job):
    from jaqalpaq.core.algorithm import expand_macros, fill_in_let
    from jaqalpaq.run import run_jaqal_circuit
    prog, ovr = job['prog'], job['ovr']
    text = render.render_prog(prog, macros_last=bool(job.get('ml')))
    stages = []
    applies = []

    def stage(name, fn):
        r, e = impl.with_cpu_limit(fn, seconds=4)
        if e is None:
            stages.append({'stage': name, 'cls': 'ok', 'msg': ''})
            return r
        stages.append({'stage': name, 'cls': 'timeout' if isinstance(e, impl.Timeout) else impl.classify_exc(e),
                       'msg': ('%s: %s' % (type(e).__name__, e))[:160]})
        return None
    c = stage('parse', lambda: passes.parse_prog(prog, text))
    # the parsed circuit handed to the execution entry point as it is (declared values): the entry point has its own
    # order of passes, and what it accepts must not depend on that order
    direct = {'cls': 'skipped', 'msg': ''}
    if c is not None and not ovr:
        parsed = c
        dobs = execrun.observe(lambda: run_jaqal_circuit(parsed), seed=1)
        direct = {'cls': dobs['cls'], 'msg': dobs['msg']}
    hooked = False
    if c is not None:
        c = stage('let', lambda: fill_in_let(c, override_dict=passes.ovr_dict(ovr) if ovr else None))
    if c is not None:
        c = stage('macro', lambda: expand_macros(c))
    if c is not None:
        obs = execrun.observe(lambda: run_jaqal_circuit(c), seed=1)
        stages.append({'stage': 'run', 'cls': obs['cls'], 'msg': obs['msg']})
        applies = obs['applies']
        hooked = obs['hooked']
    while len(stages) < 4:
        stages.append({'stage': ['parse', 'let', 'macro', 'run'][len(stages)], 'cls': 'skipped', 'msg': ''})
    return {'id': job['id'], 'model': passes.compress(prog), 'ovr': ovr, 'stages': stages, 'applies': applies, 'hooked': hooked, 'direct': direct, 'ml': bool(job.get('ml')),
            'text': text + ' | override %s | %s' % (passes.ovr_dict(ovr), [(s['stage'], s['cls']) for s in stages])}


PULSES = __import__('os').path.join(core.ROOT, 'harness', 'pulses')
ARGTEXT = {'qubit': ['q[0]', 'q[1]'], 'float': ['1.5'], 'int': ['2']}


def injected(tag):
    from jaqalpaq.core.gatedef import GateDefinition
    from jaqalpaq.core.parameter import Parameter, ParamType
    Q = ParamType.QUBIT
    return {'none': None, 'ix': {'X': GateDefinition('X', [Parameter('a', Q), Parameter('b', Q)])},
            'iz': {'Z': GateDefinition('Z', [Parameter('a', Q)])}}[tag]


def run_gateenv(job):
    """one (injected set, autoload, import sequence, call): which definition is in effect?"""
    from jaqalpaq.parser import parse_jaqal_string
    from jaqalpaq.core.gatedef import AbstractGate
    nq = 0
    args = []
    for k in job['call']['args']:
        args.append(ARGTEXT[k][nq % 2] if k == 'qubit' else ARGTEXT[k][0])
        nq += k == 'qubit'
    text = ''.join('from .%s usepulses *\n' % m for m in job['imps']) + 'register q[2]\n' + ' '.join([job['call']['v']] + args) + '\n'
    r, e = impl.with_cpu_limit(lambda: parse_jaqal_string(text, inject_pulses=injected(job['inj']), autoload_pulses=job['auto'],
                                                          import_path=PULSES))
    out = dict(job, obs={'cls': 'ok', 'msg': ''}, table=[], def_kinds=[], def_known=False,
               text=text + ' | injected %s autoload %s' % (job['inj'], job['auto']))
    if e is not None:
        out['obs'] = {'cls': 'timeout' if isinstance(e, impl.Timeout) else impl.classify_exc(e), 'msg': str(e)[:120]}
        return out
    out['table'] = sorted(({'v': n, 'kinds': project.native(g)['kinds']} for n, g in r.native_gates.items()), key=lambda x: x['v'])
    gd = r.body.statements[0].gate_def
    # a definition found in a gate set (as opposed to the anonymous definition made up when no set is in force)
    out['def_known'] = bool(any(gd is g for g in r.native_gates.values()))
    out['def_kinds'] = project.native(gd)['kinds'] if out['def_known'] else []
    return out


def gateenv_stage(rep, tier, wd):
    cfg = ('SPECIFICATION Spec\nCONSTANTS MaxImports = %d\nINVARIANT Emit\nINVARIANT InjectedWins\nINVARIANT LastImportWins\n'
           'INVARIANT ImportIdempotent\n' % (2 if tier == 'quick' else 3))
    res = core.run_tlc('GateEnvEnum', cfg, wd)
    rep.add_model_check('GateEnvEnum InjectedWins LastImportWins ImportIdempotent', res)
    jobs = []
    for line in sorted(set(res['out'].splitlines())):
        if line.startswith('<<"GENV", '):
            d = json.loads(json.loads(line[len('<<"GENV", '):].rstrip()[:-2]))
            jobs.append(dict(d, id='genv/%d' % len(jobs)))
    recs = core.pool_map(run_gateenv, jobs, chunksize=50)
    verdicts, stats = core.validate('Conform_GateEnv', recs, wd, shard_size=4000)
    rep.add_validation('gateenv', recs, verdicts, stats)
    rep.cov['gate_environments'] = len(recs)
    return recs


def main(tier):
    impl.guard_repo()
    rep = core.Report(PROP, tier)
    rng = random.Random(core.seed())
    wd = core.workdir(PROP)
    jobs = []
    for name, consts, budget in CONFIGS[tier]:
        cfg = passes.ast_cfg(*consts[:6], invariants=(), outer=consts[6])
        progs = passes.enumerate_programs(rep, name, cfg, wd, budget=budget)
        rep.cov.setdefault('enumerated_programs', {})[name] = progs.total
        if len(progs) > budget:
            progs = rng.sample(progs, budget)
            rep.cov['exhaustive'] = False
        for n, p in enumerate(progs):
            for m, o in enumerate(OVRS):
                ovr = [{'v': k, 'val': project.num(v)} for k, v in o]
                jobs.append({'id': '%s/%d/o%d' % (name, n, m), 'prog': p, 'ovr': ovr})
            if p['macros']:
                # the same program with the macro definitions written AFTER the body: a call in the body then names a macro
                # that is not defined yet (whether the body has such a call is the specification's business)
                jobs.append({'id': '%s/%d/ml' % (name, n), 'prog': p, 'ovr': [], 'ml': True})
            if n % 3 == 0:
                # one integer literal replaced by another small value (0 and -1 included); validity is the spec's business
                for q in passes.edge_variants(p, rng):
                    for m, o in enumerate(OVRS[:3]):
                        ovr = [{'v': k, 'val': project.num(v)} for k, v in o]
                        jobs.append({'id': '%s/%d/edge/o%d' % (name, n, m), 'prog': q, 'ovr': ovr})
    rep.phase('tlc_enumeration')
    recs = core.pool_map(run_pipeline, jobs, chunksize=100)
    rep.phase('replay')
    verdicts, stats = core.validate('Conform_Valid', recs, wd, shard_size=1500)
    rep.phase('tlc_validation')
    rep.add_validation('pipeline', recs, verdicts, stats)
    gateenv_stage(rep, tier, wd)
    rep.phase('gate_environment')
    out = {}
    for r in recs:
        k = '/'.join(s['cls'] for s in r['stages'])
        out[k] = out.get(k, 0) + 1
    rep.cov['pipeline_outcomes'] = out
    rep.cov['rule'] = ('(program, override) pairs over 11 header variants (valid and invalid alias declarations, duplicates, a '
                       'let-sized register) x subcircuits of <= 2 gates from 14 gate statements with valid and invalid references x 6 '
                       'override dictionaries; non-trivial = distinct pairs that the specification classifies as invalid')
    rep.cov['distinct_nontrivial'] = sum(1 for k, v in out.items() if 'jaqal_error' in k or 'parse_error' in k for _ in range(v))
    rep.cov.setdefault('exhaustive', True)
    for r in recs[0:len(recs):max(1, len(recs) // 3)][:3]:
        rep.sample({'case': r['text'], 'failing_clauses': verdicts.get(r['id'], {}).get('clauses', [])})
    rep.assumptions += ['validity is decided on the model program built by the AstEnum machine',
                        'one-directional: the check never demands rejection of a valid pair beyond valid_accepted']
    core.cleanup(PROP)
    return rep.finish()
