"""C14 - no program is accepted with a reference that cannot be honoured.

TLC enumerates (AstEnum, configuration H_V/T_V) programs containing references that may be invalid: indices -1, size-1,
size given as literal / let / overriding value / macro argument, alias slices outside their source, zero steps, aliases
and indices of a let, undefined and doubly defined identifiers, unknown gates, wrong arity and kinds under an exact
native gate set.  Each (program, override) pair is pushed through parse -> fill_in_let -> expand_macros -> run; TLC
(Conform_Valid) decides validity on the MODEL program (JaqalSem!ValidAll) and validates: invalid => rejected with
JaqalError at some stage, literal violations already at parse, valid => accepted, and for accepted programs every
applied gate acts on the qubits the specification resolves (hook H3)."""
import random

from . import core, passes, impl, project, render, execrun

PROP = 'C14'
CONFIGS = {
    'quick': [('refs', ('H_V', 'M_V', 'T_V', 'O_V', 3, 2, 'NoGates'), 2200)],
    'thorough': [('refs', ('H_V', 'M_V', 'T_V', 'O_V', 4, 2, 'NoGates'), 60000)],
}
OVRS = [[], [('k', 2)], [('a', 3)], [('a', -1)], [('k', 4)], [('a', 0), ('k', 1)]]


def run_pipeline(job):
    from jaqalpaq.core.algorithm import expand_macros, fill_in_let
    from jaqalpaq.run import run_jaqal_circuit
    prog, ovr = job['prog'], job['ovr']
    text = render.render_prog(prog)
    stages = []
    applies = []

    def stage(name, fn):
        r, e = impl.with_cpu_limit(fn, seconds=4)
        if e is None:
            stages.append({'stage': name, 'cls': 'ok', 'msg': ''})
            return r
        stages.append({'stage': name, 'cls': 'timeout' if isinstance(e, impl.Timeout) else impl.classify_exc(e),
                       'msg': ('%s: %s' % (type(e).__name__, e))[:160]})
        return None
    c = stage('parse', lambda: passes.parse_prog(prog, text))
    if c is not None:
        c = stage('let', lambda: fill_in_let(c, override_dict=passes.ovr_dict(ovr) if ovr else None))
    if c is not None:
        c = stage('macro', lambda: expand_macros(c))
    hooked = False
    if c is not None:
        obs = execrun.observe(lambda: run_jaqal_circuit(c), seed=1)
        stages.append({'stage': 'run', 'cls': obs['cls'], 'msg': obs['msg']})
        applies = obs['applies']
        hooked = obs['hooked']
    while len(stages) < 4:
        stages.append({'stage': ['parse', 'let', 'macro', 'run'][len(stages)], 'cls': 'skipped', 'msg': ''})
    return {'id': job['id'], 'model': passes.compress(prog), 'ovr': ovr, 'stages': stages, 'applies': applies, 'hooked': hooked,
            'text': text + ' | override %s | %s' % (passes.ovr_dict(ovr), [(s['stage'], s['cls']) for s in stages])}


def main(tier):
    impl.guard_repo()
    rep = core.Report(PROP, tier)
    rng = random.Random(core.seed())
    wd = core.workdir(PROP)
    jobs = []
    for name, consts, budget in CONFIGS[tier]:
        cfg = passes.ast_cfg(*consts[:6], invariants=(), outer=consts[6])
        progs = passes.enumerate_programs(rep, name, cfg, wd, budget=budget)
        rep.cov.setdefault('enumerated_programs', {})[name] = progs.total
        if len(progs) > budget:
            progs = rng.sample(progs, budget)
            rep.cov['exhaustive'] = False
        for n, p in enumerate(progs):
            for m, o in enumerate(OVRS):
                ovr = [{'v': k, 'val': project.num(v)} for k, v in o]
                jobs.append({'id': '%s/%d/o%d' % (name, n, m), 'prog': p, 'ovr': ovr})
    rep.phase('tlc_enumeration')
    recs = core.pool_map(run_pipeline, jobs, chunksize=100)
    rep.phase('replay')
    verdicts, stats = core.validate('Conform_Valid', recs, wd, shard_size=1500)
    rep.phase('tlc_validation')
    rep.add_validation('pipeline', recs, verdicts, stats)
    out = {}
    for r in recs:
        k = '/'.join(s['cls'] for s in r['stages'])
        out[k] = out.get(k, 0) + 1
    rep.cov['pipeline_outcomes'] = out
    rep.cov['rule'] = ('(program, override) pairs over 11 header variants (valid and invalid alias declarations, duplicates, a '
                       'let-sized register) x subcircuits of <= 2 gates from 14 gate statements with valid and invalid references x 6 '
                       'override dictionaries; non-trivial = distinct pairs that the specification classifies as invalid')
    rep.cov['distinct_nontrivial'] = sum(1 for k, v in out.items() if 'jaqal_error' in k or 'parse_error' in k for _ in range(v))
    rep.cov.setdefault('exhaustive', True)
    for r in recs[0:len(recs):max(1, len(recs) // 3)][:3]:
        rep.sample({'case': r['text'], 'failing_clauses': verdicts.get(r['id'], {}).get('clauses', [])})
    rep.assumptions += ['validity is decided on the model program built by the AstEnum machine',
                        'one-directional: the check never demands rejection of a valid pair beyond valid_accepted']
    core.cleanup(PROP)
    return rep.finish()
