"""Thin adapters around the real jaqalpaq API: run one call, classify the outcome.  No expectations
are computed here; the adapters only record what the implementation did."""
import os
import sys
import signal
import resource

from jaqalpaq.error import JaqalError
from jaqalpaq.parser.slyparse import JaqalParseError


def guard_repo():
    import jaqalpaq.parser as p
    here = os.path.realpath(p.__file__)
    root = os.environ.get('VERIF_REPO_SRC', '/repo/src')
    if not here.startswith(os.path.realpath(root) + os.sep):
        raise SystemExit('MACHINERY: jaqalpaq is not imported from %s (%s)' % (root, here))


def classify_exc(e):
    if isinstance(e, JaqalParseError):
        return 'parse_error'
    if isinstance(e, JaqalError):
        return 'jaqal_error'
    if isinstance(e, ImportError):
        return 'import_error'
    return 'crash:' + type(e).__name__


class Timeout(BaseException):
    pass


def _alarm(signum, frame):
    raise Timeout()


def with_cpu_limit(fn, seconds=10):
    """Run fn() under a CPU-time watchdog; returns (result, None) or (None, exception)."""
    old = signal.signal(signal.SIGVTALRM, _alarm)
    signal.setitimer(signal.ITIMER_VIRTUAL, seconds)
    try:
        return fn(), None
    except Timeout:
        return None, Timeout()
    except RecursionError as e:
        return None, e
    except Exception as e:       # noqa
        return None, e
    finally:
        signal.setitimer(signal.ITIMER_VIRTUAL, 0)
        signal.signal(signal.SIGVTALRM, old)


def pos_to_offset(text, line, col):
    """(line, column) as carried by JaqalParseError -> (eof?, 0-based character offset)."""
    if line == 'EOF':
        return True, len(text)
    if not isinstance(line, int) or not isinstance(col, int):
        return False, -1
    off = 0
    for _ in range(line - 1):
        j = text.find('\n', off)
        if j < 0:
            return False, -1
        off = j + 1
    return False, off + col - 1
