"""C04 - macro expansion preserves the meaning of the program."""
from . import passes

PROP = 'C04'
SITES = [('expand_macros', []), ('expand_macros_preserve', [])]
CONFIGS = {
    'quick': [('macro-rich', ('H_M', 'M_MA', 'T_MA', 'O_MA', 1, 3), 4000),
              ('body-rich', ('H_M', 'M_MB', 'T_MB', 'O_MB', 3, 3), 4000),
              ('nest3', ('H_M', 'M_N3', 'T_N3', 'O_N3', 2, 2), 2000)],
    'thorough': [('macro-rich', ('H_M', 'M_MA', 'T_MA', 'O_MA', 2, 3), 60000),
                 ('body-rich', ('H_M', 'M_MB', 'T_MB', 'O_MB', 4, 4), 60000),
                 ('nest3', ('H_M', 'M_N3', 'T_N3', 'O_N3', 3, 3), 40000)],
}
OWNED = {'accepted', 'no_macro_calls', 'meaning_mod_sub', 'sub_annotations', 'header_carried',
         'imports_carried', 'definitions', 'refs_follow_decls'}


def owned(site):
    if site == 'parse':
        return set()                      # binding by the parser is C07's business
    return OWNED


def nontrivial(prog):
    """>= 1 macro call in the main body whose macro uses a parameter or calls another macro"""
    txt = repr(prog['body'])
    return any(("'v': '%s'" % m['v']) in txt and ('param' in repr(m['body']) or "'m1'" in repr(m['body']) or "'m2'" in repr(m['body']))
               for m in prog['macros'])


def main(tier):
    return passes.run_property(
        PROP, tier, CONFIGS, lambda p, rng: SITES, owned, nontrivial,
        'complete programs of the AstEnum builder machine (macro-rich and body-rich configurations), each rendered, '
        'parsed and expanded by the real code (with and without preserve_definitions); non-trivial = distinct '
        'programs whose main body calls a macro that uses a parameter or calls another macro', variants=('edge',))
