"""C10 - passes commute up to meaning, are idempotent, and keep circuits legal.

spec -> code: TLC enumerates (a) programs with the AstEnum machine and (b) all call histories of the
JaqalLib machine (Chain = TRUE) over {expand_subcircuits, fill_in_let(ovr), fill_in_map, expand_macros};
the harness replays every history on a fresh parse of every program.
code -> spec: the recorded prefix tree of calls is validated by Conform_Lib (per-call pass clauses,
idempotence, legality of every result incl. re-parse of its generated text), all orders of one set of
passes are compared by meaning (commute), and the parser's expand_* flags are compared with the passes.
"""
import itertools
import json
import random

from . import core, passes, impl, project, render

PROP = 'C10'
OPS = {'S': 'expand_subcircuits', 'L': 'fill_in_let', 'M': 'fill_in_map', 'A': 'expand_macros'}
CONFIGS = {
    # (name, AstEnum constants, program budget, longest history, number of override dictionaries)
    'quick': ([('mixed', ('H_X', 'M_X', 'T_X', 'O_X', 2, 3), 60, 3, 4), ('par-calls', ('H_X', 'M_XP', 'T_XP', 'O_XP', 2, 3), 700, 2, 1),
               ('legal', ('H_X', 'M_X', 'T_X', 'O_X', 2, 3), 1500, 1, 1),
               ('collide', ('H_X', 'M_XC', 'T_XC', 'O_XC', 2, 3), 150, 3, 2)], 3),
    'thorough': ([('mixed', ('H_X', 'M_X', 'T_X', 'O_X', 3, 3), 900, 4, 4), ('par-calls', ('H_X', 'M_XP', 'T_XP', 'O_XP', 3, 3), 20000, 2, 1),
                  ('legal', ('H_X', 'M_X', 'T_X', 'O_X', 3, 3), 15000, 1, 1),
                  ('collide', ('H_X', 'M_XC', 'T_XC', 'O_XC', 3, 3), 400, 4, 2)], 4),
}
OVRS = [[], [('a', 2)], [('n', 1)], [('a', 0), ('n', 3)]]

LIB_CFG = ('SPECIFICATION Spec\nCONSTANTS\n Transforms = {"S", "L", "M", "A"}\n Analyses = {}\n MaxLen = %d\n Chain = TRUE\n'
           'INVARIANT Emit\nINVARIANT ResultIsSetOfOps\nPROPERTY InputUnchanged\n')


def histories(rep, wd, maxlen):
    res = core.run_tlc('JaqalLib', LIB_CFG % maxlen, wd)
    rep.add_model_check('JaqalLib[Chain,MaxLen=%d] ResultIsSetOfOps InputUnchanged' % maxlen, res)
    out = set()
    for line in res['out'].splitlines():
        if line.startswith('<<"HIST", '):
            out.add(tuple(json.loads(json.loads(line[len('<<"HIST", '):].rstrip()[:-2]))))
    return sorted(out, key=lambda h: (len(h), h))


def reparse_of(circ, natives):
    from jaqalpaq.generator import generate_jaqal_program
    from jaqalpaq.parser import parse_jaqal_string
    from . import gates

    def go():
        text = generate_jaqal_program(circ)
        inject = gates.select([n['v'] for n in natives]) if natives else None
        return parse_jaqal_string(text, inject_pulses=inject, autoload_pulses=False)
    o, _ = passes.outcome(go)
    return o


def run_tree(job):
    """replay all histories (prefix tree) on fresh parses of one program under one override"""
    prog, ovr, hists = job['prog'], job['ovr'], job['hists']
    text = job.get('text') or render.render_prog(prog)
    pout, circ0 = passes.outcome(lambda: passes.parse_prog(prog, text))
    if circ0 is None:
        return None
    nodes = []
    index = {(): (0, circ0)}
    for h in hists:
        if not h:
            continue
        parent = h[:-1]
        if parent not in index:
            continue                 # the parent call failed: this history is not applicable
        pidx, pcirc = index[parent]
        site = OPS[h[-1]]
        o, circ = passes.outcome(passes.apply_site(site, pcirc, ovr if site == 'fill_in_let' else []))
        node = {'parent': pidx, 'site': site, 'out': o, 'eq_prev': False, 'hist': ''.join(h),
                'reparse': {'cls': 'none', 'prog': passes.EMPTY_PROG, 'msg': ''}}
        if circ is not None:
            node['eq_prev'] = bool(circ == pcirc)
            node['reparse'] = reparse_of(circ, prog['natives'])
            nodes.append(node)
            index[h] = (len(nodes), circ)
        else:
            nodes.append(node)
    case = {'id': job['id'], 'kind': 'tree', 'start': pout['prog'], 'ovr': ovr, 'nodes': nodes, 'text': text}
    # commute groups: all orders of one set of passes (each once) that ran without error
    groups = {}
    for h, (idx, _) in index.items():
        if h and len(set(h)) == len(h):
            # fill_in_map before fill_in_let is only comparable when nothing is overridden (Applicable, R5)
            if ovr and 'M' in h and 'L' in h and h.index('M') < h.index('L'):
                continue
            groups.setdefault(frozenset(h), []).append(nodes[idx - 1]['out']['prog'])
    out = [case]
    for k, ends in groups.items():
        if len(ends) >= 2:
            out.append({'id': '%s/commute/%s' % (job['id'], ''.join(sorted(k))), 'kind': 'commute', 'ends': ends,
                        'text': text, 'ovr': ovr})
    # parser flags
    if job.get('flags'):
        from jaqalpaq.core.algorithm import expand_macros, fill_in_let
        from jaqalpaq.core.algorithm.fill_in_map import fill_in_map
        od = passes.ovr_dict(ovr) if ovr else None
        for name, kw, explicit in (
                ('expand_macro', dict(expand_macro=True), lambda c: expand_macros(c, preserve_definitions=True)),
                ('expand_let', dict(expand_let=True, override_dict=od), lambda c: fill_in_let(c, override_dict=od)),
                ('expand_let_map', dict(expand_let_map=True, override_dict=od),
                 lambda c: fill_in_map(fill_in_let(c, override_dict=od)))):
            a, ca = passes.outcome(lambda: passes.parse_prog(prog, text, **kw))
            b, cb = passes.outcome(lambda: explicit(passes.parse_prog(prog, text)))
            out.append({'id': '%s/flags/%s' % (job['id'], name), 'kind': 'flags', 'a': a, 'b': b,
                        'eq': bool(ca is not None and cb is not None and ca == cb), 'text': text, 'ovr': ovr})
    return out


def owned_clause(clause):
    base = clause.split('@')[0]
    return base in {'commute', 'idempotent', 'parser_flags', 'legal_nesting', 'legal_reparse', 'legal_refs', 'accepted', 'error_type'}


def main(tier):
    impl.guard_repo()
    rep = core.Report(PROP, tier)
    rng = random.Random(core.seed())
    wd = core.workdir(PROP)
    cfgs, maxlen = CONFIGS[tier]
    hists = histories(rep, wd, maxlen)
    jobs = []
    for name, consts, budget, hlen, novr in cfgs:
        progs = passes.enumerate_programs(rep, name, passes.ast_cfg(*consts), wd, budget=budget)
        rep.cov.setdefault('enumerated_programs', {})[name] = progs.total
        if len(progs) > budget:
            progs = rng.sample(progs, budget)
            rep.cov['exhaustive'] = False
        hs = [h for h in hists if len(h) <= hlen]
        for n, p in enumerate(progs):
            for m, o in enumerate(OVRS[:novr]):
                ovr = [{'v': k, 'val': project.num(v)} for k, v in o]
                jobs.append({'id': '%s/%d/o%d' % (name, n, m), 'prog': p, 'ovr': ovr, 'hists': hs, 'flags': hlen >= 3})
    for f in rep.findings:
        if 'witness' in f:
            w = f['witness']
            wp = dict(passes.EMPTY_PROG, natives=passes.exact_natives() if w.get('natives') else [])
            jobs.append({'id': 'witness/' + f['id'], 'prog': wp, 'text': w['text'], 'hists': hists, 'flags': True,
                         'ovr': [{'v': k, 'val': project.num(v)} for k, v in w.get('ovr', [])]})
    rep.phase('tlc_enumeration')
    recs = [c for cs in core.pool_map(run_tree, jobs, chunksize=4) if cs for c in cs]
    rep.phase('replay')
    verdicts, stats = core.validate('Conform_Lib', recs, wd, shard_size=150)
    rep.phase('tlc_validation')
    for f in rep.findings:
        if 'witness' in f:
            hit = [v for k, v in verdicts.items() if k.startswith('witness/' + f['id']) and f['clause'] in v['clauses']]
            rep.witness(f['id'], bool(hit))
    # one "site" per case kind; clause names carry the pass they were observed at
    bykind = {}
    for r in recs:
        bykind.setdefault(r['kind'], []).append(r)
    first = True
    for kind, rs in sorted(bykind.items()):
        ids = {r['id'] for r in rs}
        vs = {}
        for k, v in verdicts.items():
            if k in ids:
                mine = [c for c in v['clauses'] if owned_clause(c)]
                other = [c for c in v['clauses'] if not owned_clause(c)]
                for c in other:
                    d = rep.cov.setdefault('clauses_left_to_other_properties', {})
                    d[c] = d.get(c, 0) + 1
                if mine:
                    vs[k] = dict(v, clauses=mine)
        rep.add_validation(kind, rs, vs, stats if first else {'states': 0, 'transitions': 0})
        first = False
    ncalls = sum(len(r['nodes']) for r in bykind.get('tree', []))
    rep.cov['pass_calls_replayed'] = ncalls
    rep.cov['histories'] = len(hists)
    rep.cov['rule'] = ('every history of the JaqalLib machine (all sequences with repetition of the four passes up to '
                       'MaxLen=%d) replayed on every sampled AstEnum program under 4 override dictionaries; '
                       'non-trivial = distinct (program, override) pairs on which at least 3 distinct passes changed '
                       'the circuit' % maxlen)
    rep.cov['distinct_nontrivial'] = sum(
        1 for r in bykind.get('tree', [])
        if len({n['site'] for n in r['nodes'] if n['out']['cls'] == 'ok' and not n['eq_prev']}) >= 3)
    rep.cov.setdefault('exhaustive', True)
    for r in recs[0:len(recs):max(1, len(recs) // 4)][:4]:
        rep.sample({'kind': r['kind'], 'text': r['text'], 'override': passes.ovr_dict(r['ovr']),
                    'histories_replayed': [n['hist'] + ':' + n['out']['cls'] for n in r.get('nodes', [])][:40],
                    'failing_clauses': verdicts.get(r['id'], {}).get('clauses', [])})
    rep.assumptions += ['projection / renderer trusted',
                        'fill_in_map before fill_in_let is compared only when nothing is overridden (Applicable)']
    core.cleanup(PROP)
    return rep.finish()
