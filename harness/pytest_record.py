"""pytest plugin (harness side, nothing in /repo changes): records every text the repository's own test suite hands to
the parser, so that these texts can be judged by the specification (C02, code -> spec on inputs nobody here wrote).
Enabled with  -p harness.pytest_record  and VERIF_RECORD=<output file>."""
import json
import os


def pytest_configure(config):
    path = os.environ.get('VERIF_RECORD')
    if not path:
        return
    import jaqalpaq.parser.parser as P
    out = open(path, 'a')
    orig = P.parse_to_sexpression

    def recording(jaqal, *a, **k):
        try:
            if isinstance(jaqal, str):
                out.write(json.dumps(jaqal) + '\n')
                out.flush()
        except Exception:      # recording must never change the outcome of a test
            pass
        return orig(jaqal, *a, **k)
    P.parse_to_sexpression = recording
