"""pytest plugin (harness side, nothing in /repo changes): records every text the repository's own test suite hands to
the parser, so that these texts can be judged by the specification (C02, code -> spec on inputs nobody here wrote).
Enabled with  -p harness.pytest_record  and VERIF_RECORD=<output file>."""
import json
import os


def pytest_configure(config):
    path = os.environ.get('VERIF_RECORD')
    if not path:
        return
    import jaqalpaq.parser.parser as P
    out = open(path, 'a')
    orig = P.parse_to_sexpression

    def recording(jaqal, *a, **k):
        try:
            if isinstance(jaqal, str):
                out.write(json.dumps(jaqal) + '\n')
                out.flush()
        except Exception:      # recording must never change the outcome of a test
            pass
        return orig(jaqal, *a, **k)
    P.parse_to_sexpression = recording


# ---------------------------------------------------------------------------------------------------------------
# the same for the transformation passes: every call the repository's tests make is recorded as one case of the
# trace specification Conform_Pass (input projection, override, outcome projection)
PASSES = [
    ('jaqalpaq.core.algorithm.expand_macros', 'expand_macros', 'expand_macros'),
    ('jaqalpaq.core.algorithm.fill_in_let', 'fill_in_let', 'fill_in_let'),
    ('jaqalpaq.core.algorithm.fill_in_map', 'fill_in_map', 'fill_in_map'),
    ('jaqalpaq.core.algorithm.expand_subcircuits', 'expand_subcircuits', 'expand_subcircuits'),
    ('jaqalpaq.core.algorithm.unit_timing', 'normalize_blocks_with_unitary_timing', 'unit_timing'),
]


def _record_pass(out, site, fn):
    import functools

    @functools.wraps(fn)
    def recording(circuit, *a, **k):
        rec = None
        try:
            from jaqalpaq.core.circuit import Circuit
            from harness import passes, project
            plain = isinstance(circuit, Circuit) and not (site == 'expand_macros' and (a or k.get('preserve_definitions'))) \
                and not (site == 'expand_subcircuits' and (a or k))
            if plain:
                ovr = k.get('override_dict') or (a[0] if a else None) or {}
                rec = {'site': site, 'inp': passes.compress(project.circuit(circuit)),
                       'ovr': [{'v': str(n), 'val': project.num(v)} for n, v in ovr.items()]}
                if any(o['val'] is None for o in rec['ovr']):
                    rec = None
        except Exception:
            rec = None
        try:
            result = fn(circuit, *a, **k)
        except BaseException as e:
            if rec is not None:
                try:
                    from harness import impl, passes
                    rec['out'] = {'cls': impl.classify_exc(e), 'prog': passes.EMPTY_PROG, 'msg': str(e)[:120]}
                    out.write(json.dumps(rec) + '\n')
                    out.flush()
                except Exception:
                    pass
            raise
        if rec is not None:
            try:
                from harness import passes, project
                rec['out'] = {'cls': 'ok', 'prog': passes.compress(project.circuit(result)), 'msg': ''}
                out.write(json.dumps(rec) + '\n')
                out.flush()
            except Exception:
                pass
        return result
    return recording


def pytest_sessionstart(session):
    path = os.environ.get('VERIF_RECORD_PASSES')
    if not path:
        return
    import importlib
    out = open(path, 'a')
    pkg = importlib.import_module('jaqalpaq.core.algorithm')
    for modname, fname, site in PASSES:
        mod = importlib.import_module(modname)
        wrapped = _record_pass(out, site, getattr(mod, fname))
        setattr(mod, fname, wrapped)
        if hasattr(pkg, fname):
            setattr(pkg, fname, wrapped)
