"""C09 - subcircuit blocks mean prepare_all ... measure_all (static part: expand_subcircuits)."""
from . import passes

PROP = 'C09'
CONFIGS = {
    'quick': [('subcircuits', ('H_M', 'M_S', 'T_S', 'O_S', 2, 4), 5000)],
    'thorough': [('subcircuits', ('H_M', 'M_S', 'T_S', 'O_S', 4, 4), 80000)],
}
OWNED = {'accepted', 'no_sub_left', 'brackets', 'header_carried', 'macros_kept', 'macro_brackets', 'imports_carried'}


def owned(site):
    return set() if site == 'parse' else OWNED


def nontrivial(prog):
    return "'sub': True" in repr(prog['body']) + repr(prog['macros'])


def main(tier):
    from . import execprops
    return passes.run_property(
        PROP, tier, CONFIGS, lambda p, rng: [('expand_subcircuits', []), ('expand_subcircuits_defs', []), ('expand_subcircuits_again', [])], owned, nontrivial,
        'complete programs of the AstEnum builder machine with subcircuit blocks at top level, in loops, in sequential '
        'blocks and in macros, with literal / let counts, mixed with explicit prepare_all / measure_all; non-trivial = '
        'distinct programs containing a subcircuit block; plus (dynamic half) programs executed next to their explicit spelling',
        extra_stage=lambda rep, wd, rng: execprops.explicit_stage(rep, wd, rng, tier), variants=('edge',))
