"""C01 - generated Jaqal text parses back to the same circuit (round trip).

Machine view (Conform_RT): state (c, t); actions Generate and Parse.  TLC enumerates programs (AstEnum, rich header
and literal shapes); each is turned into a circuit two ways (rendered text -> parser; S-expression -> builder), then
generate -> parse -> generate is recorded and validated by TLC: the SPEC's lexer and grammar accept the generated
text (the generator is judged against the grammar independently of the real parser), the real parser accepts it,
the re-parsed circuit projects to the same AST, compares == and has the same meaning, and the second text equals
the first byte for byte."""
import os
import random

from . import core, passes, impl, project, render, gates

PROP = 'C01'
CONFIGS = {
    'quick': [('roundtrip', ('H_R', 'M_R', 'T_R', 'O_R', 2, 3), 1500)],
    'thorough': [('roundtrip', ('H_R', 'M_R', 'T_R', 'O_R', 3, 3), 40000)],
}


def circuit_of(job):
    from jaqalpaq.core.circuitbuilder import build
    prog = job['prog']
    if job['route'] in ('text', 'textml'):
        return passes.parse_prog(prog, job.get('text'))
    inject = gates.select([n['v'] for n in prog['natives']]) if prog['natives'] else None
    return build(render.sexpr_prog(prog), inject_pulses=inject)


def run_rt(job):
    from jaqalpaq.generator import generate_jaqal_program
    prog = job['prog']
    src = job.get('text') or (render.render_prog(prog) if job['route'] == 'text' else repr(render.sexpr_prog(prog)))
    o0, c0 = passes.outcome(lambda: circuit_of(job))
    if c0 is None:
        return {'id': job['id'], 'kind': 'skip', 'why': o0['msg'], 'src': src}
    rec = {'id': job['id'], 'kind': 'rt', 'src': src, 'c0': o0['prog'], 'gen': {'cls': 'ok', 'text': []},
           'c1': {'cls': 'none', 'prog': passes.EMPTY_PROG, 'msg': ''}, 'eq01': False, 'text_fix': False, 't1': ''}
    t1, e = impl.with_cpu_limit(lambda: generate_jaqal_program(c0))
    if e is not None:
        rec['gen']['cls'] = impl.classify_exc(e)
        return rec
    rec['t1'] = t1
    rec['gen']['text'] = [min(ord(ch), 255) for ch in t1]
    o1, c1 = passes.outcome(lambda: passes.parse_prog(prog, t1))
    rec['c1'] = o1
    if c1 is not None:
        rec['eq01'] = bool(c0 == c1)
        t2, e2 = impl.with_cpu_limit(lambda: generate_jaqal_program(c1))
        rec['text_fix'] = bool(e2 is None and t2 == t1)
    return rec


def main(tier):
    impl.guard_repo()
    rep = core.Report(PROP, tier)
    rng = random.Random(core.seed())
    wd = core.workdir(PROP)
    jobs = []
    for name, consts, budget in CONFIGS[tier]:
        progs = passes.enumerate_programs(rep, name, passes.ast_cfg(*consts), wd, budget=budget)
        rep.cov.setdefault('enumerated_programs', {})[name] = progs.total
        if len(progs) > budget:
            progs = rng.sample(progs, budget)
            rep.cov['exhaustive'] = False
        for n, p in enumerate(progs):
            jobs.append({'id': '%s/%d/text' % (name, n), 'prog': p, 'route': 'text'})
            jobs.append({'id': '%s/%d/builder' % (name, n), 'prog': p, 'route': 'builder'})
            if p['macros'] and n % 2 == 0:
                # the same program with its macro definitions written AFTER the body statements (legal when they are not
                # called before): the generator prints definitions first, so the order of declarations changes on the way
                jobs.append({'id': '%s/%d/textml' % (name, n), 'prog': p, 'route': 'textml', 'text': render.render_prog(p, macros_last=True)})
            if n % 3 == 0:
                for q in passes.edge_variants(p, rng):
                    jobs.append({'id': '%s/%d/edge/text' % (name, n), 'prog': q, 'route': 'text'})
    for f in rep.findings:
        if 'witness' in f and 'text' in f['witness']:
            jobs.append({'id': 'witness/' + f['id'], 'prog': dict(passes.EMPTY_PROG), 'route': 'text', 'text': f['witness']['text']})
    # every example file of the repository takes the same trip (ids end in /text: judged with the text route)
    for path in passes.corpus_files():
        jobs.append({'id': 'corpus/%s/text' % os.path.basename(path)[:-6], 'prog': dict(passes.EMPTY_PROG), 'route': 'text',
                     'text': open(path).read()})
    rep.cov['repository_example_files'] = len(passes.corpus_files())
    rep.phase('tlc_enumeration')
    recs = core.pool_map(run_rt, jobs, chunksize=100)
    skipped = [r for r in recs if r['kind'] == 'skip']
    recs = [r for r in recs if r['kind'] == 'rt']
    rep.cov['not_constructible'] = len(skipped)
    if skipped:
        rep.notes.append('example of a program that could not be constructed: %s | %s' % (skipped[0]['why'], skipped[0]['src'][:200]))
    rep.phase('replay')
    verdicts, stats = core.validate('Conform_RT', recs, wd, shard_size=400)
    rep.phase('tlc_validation')
    for f in rep.findings:
        if 'witness' in f:
            v = verdicts.get('witness/' + f['id'])
            rep.witness(f['id'], v is not None and f['clause'] in v['clauses'])
    for route in ('text', 'builder', 'textml'):
        rs = [r for r in recs if r['id'].endswith('/' + route) or (route == 'text' and r['id'].startswith('witness/'))]
        ids = {r['id'] for r in rs}
        rep.add_validation(route, rs, {k: v for k, v in verdicts.items() if k in ids},
                           stats if route == 'text' else {'states': 0, 'transitions': 0})
    rep.cov['rule'] = ('complete programs of the AstEnum machine over headers with int / negative / float / exponent-repr / big '
                       'literals, let-sized register, strided let-bounded slice, single-qubit and whole aliases, an import, a '
                       'macro, nested seq/par/loop/subcircuit with literal and let counts; each built through the parser and '
                       'through the builder; non-trivial = distinct programs with a block or a macro call')
    rep.cov['distinct_nontrivial'] = len({repr(j['prog']['body']) + repr(j['prog']['macros']) for j in jobs
                                          if "'k': 'blk'" in repr(j['prog']['body']) or "'v': 'm'" in repr(j['prog']['body'])})
    rep.cov.setdefault('exhaustive', True)
    for r in recs[0:len(recs):max(1, len(recs) // 3)][:3]:
        rep.sample({'source': r['src'][:400], 'generated': r['t1'][:400], 'failing_clauses': verdicts.get(r['id'], {}).get('clauses', [])})
    rep.assumptions += ['projection / renderers trusted', 'float(repr(x)) == x is Python\'s guarantee and is not modelled']
    core.cleanup(PROP)
    return rep.finish()
