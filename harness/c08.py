from . import execprops


def main(tier):
    return execprops.main('C08', tier)
