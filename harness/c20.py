"""C20 - circuit equality is an equivalence consistent with meaning and text.

TLC enumerates programs (AstEnum); the harness derives every single-point mutant of each (another gate name,
argument, qubit index, loop / subcircuit count, block kind, alias bound, register size, let value), renders both,
parses both with the real parser and records ==, both ways, plus reflexivity and the text round trip.  TLC
(Conform_RT, kind "eq") computes for the pair whether declarations and Meaning are identical and validates."""
import copy
import random

from . import core, passes, impl, project, render

PROP = 'C20'
CONFIGS = {
    'quick': [('eq', ('H_R', 'M_R', 'T_R', 'O_R', 2, 3), 500)],
    'thorough': [('eq', ('H_R', 'M_R', 'T_R', 'O_R', 3, 3), 12000)],
}


def bump(num, d=1):
    if num['t'] == 'int':
        return project.num(int(num['v']) + d)
    return project.num(float(num['v']) + d)


def near(num):
    """a value that differs from a float in the 12th significant digit only (tolerant comparisons confuse them)"""
    x = float(num['v'])
    return project.num(x * (1 + 1e-12) if x else 1e-300)


def mutants(prog):
    """all single-point mutants (as (description, program))"""
    out = []

    def visit(stmts, path):
        for i, s in enumerate(stmts):
            p = path + [i]
            if s['k'] == 'gate':
                out.append(('gate name', p, lambda x: x.update(v=x['v'] + 'z')))
                for a, arg in enumerate(s['args']):
                    if arg['k'] == 'num':
                        out.append(('numeric argument', p, lambda x, a=a: x['args'].__setitem__(a, bump(x['args'][a]))))
                        if arg['t'] != 'int':
                            out.append(('numeric argument (12th digit)', p, lambda x, a=a: x['args'].__setitem__(a, near(x['args'][a]))))
                    elif arg['k'] == 'qubit' and arg['idx']['k'] == 'num':
                        out.append(('qubit index', p, lambda x, a=a: x['args'][a].update(
                            idx=project.num(0 if int(x['args'][a]['idx']['v']) else 1))))
                    elif arg['k'] == 'let':
                        out.append(('let argument', p, lambda x, a=a: x['args'][a].update(v='a' if x['args'][a]['v'] != 'a' else 'n')))
                if s['args']:
                    out.append(('drop last argument', p, lambda x: x['args'].pop()))
            elif s['k'] == 'loop':
                if s['count']['k'] == 'num':
                    out.append(('loop count', p, lambda x: x.update(count=bump(x['count']))))
                else:
                    out.append(('loop count', p, lambda x: x.update(count=project.num(7))))
                visit(s['body']['body'], p + ['b'])
            elif s['k'] == 'blk':
                if s['sub']:
                    if s['iters']['k'] == 'num':
                        out.append(('subcircuit count', p, lambda x: x.update(iters=bump(x['iters']))))
                    else:
                        out.append(('subcircuit count', p, lambda x: x.update(iters=project.num(9))))
                    out.append(('subcircuit annotation', p, lambda x: x.update(sub=False, iters=project.num(1))))
                elif all(c['k'] == 'gate' for c in s['body']) and len(path) == 0:
                    out.append(('block kind', p, lambda x: x.update(par=not x['par'])))
                visit(s['body'], p + ['c'])

    visit(prog['body'], [])
    res = []
    for what, path, fn in out:
        q = copy.deepcopy(prog)
        node = None
        cur = q['body']
        for step in path:
            if step == 'b':
                cur = node['body']['body']
            elif step == 'c':
                cur = node['body']
            else:
                node = cur[step]
        fn(node)
        res.append((what, q))
    for j, l in enumerate(prog['lets']):
        q = copy.deepcopy(prog)
        q['lets'][j]['val'] = bump(q['lets'][j]['val'])
        res.append(('let value', q))
        if l['val']['t'] != 'int':
            q = copy.deepcopy(prog)
            q['lets'][j]['val'] = near(q['lets'][j]['val'])
            res.append(('let value (12th digit)', q))
    for j, r in enumerate(prog['regs']):
        for fld in ('size', 'idx', 'start', 'stop', 'step'):
            if r[fld]['k'] == 'num':
                q = copy.deepcopy(prog)
                q['regs'][j][fld] = bump(q['regs'][j][fld], -1 if fld in ('stop', 'size') else 1)
                res.append(('register/alias ' + fld, q))
    return res


# value pairs CPython hashes alike (hash(-1) == hash(-2), also for floats): an equality that goes through hashes, or a
# memo keyed on them, confuses exactly these
TWINS = [(-1, -2), (-1.0, -2.0), (0, 2 ** 61 - 1), (1, 2 ** 61)]   # int hashes are taken modulo 2**61 - 1


def twin_pairs(prog):
    """pairs of programs that differ in one numeric literal only, the two values being hash twins"""
    res = []
    for j, l in enumerate(prog['lets']):
        if l['val']['k'] == 'num':
            for x, y in TWINS:
                if (l['val']['t'] == 'int') == isinstance(x, int):
                    qa, qb = copy.deepcopy(prog), copy.deepcopy(prog)
                    qa['lets'][j]['val'] = project.num(x)
                    qb['lets'][j]['val'] = project.num(y)
                    res.append(('let value %s / %s' % (x, y), qa, qb))

    def sites(stmts, path):
        for i, s in enumerate(stmts):
            if s['k'] == 'gate':
                for a, arg in enumerate(s['args']):
                    if arg['k'] == 'num':
                        yield path + [(i, a)]
            elif s['k'] == 'loop':
                yield from sites(s['body']['body'], path + [(i, 'b')])
            elif s['k'] == 'blk':
                yield from sites(s['body'], path + [(i, 'c')])

    def setat(q, path, val):
        cur = q['body']
        for i, step in path[:-1]:
            cur = cur[i]['body']['body'] if step == 'b' else cur[i]['body']
        i, a = path[-1]
        cur[i]['args'][a] = val

    for path in sites(prog['body'], []):
        for x, y in TWINS:
            qa, qb = copy.deepcopy(prog), copy.deepcopy(prog)
            setat(qa, path, project.num(x))
            setat(qb, path, project.num(y))
            res.append(('numeric argument %s / %s' % (x, y), qa, qb))
    return res


def run_pair(job):
    from jaqalpaq.generator import generate_jaqal_program
    ta, tb = job['ta'], job['tb']
    oa, ca = passes.outcome(lambda: passes.parse_prog(job['prog'], ta))
    ob, cb = passes.outcome(lambda: passes.parse_prog(job['prog'], tb))
    if ca is None or cb is None:
        return {'id': job['id'], 'kind': 'skip'}
    if job.get('wrap'):
        # the same pair written with comments around and inside the code (layout only): the circuits that are COMPARED come
        # from the commented texts, the programs whose declarations and meaning the specification compares are those of the
        # plain texts - a change of meaning must make the circuits unequal however the texts are laid out
        def wrap(t):
            lines = t.split('\n')
            return '/* head\n   of the file */\n' + '\n'.join(l + ' // c' if j % 2 == 0 and l else l for j, l in enumerate(lines)) + '\n/* tail */\n'
        _, ca2 = passes.outcome(lambda: passes.parse_prog(job['prog'], wrap(ta)))
        _, cb2 = passes.outcome(lambda: passes.parse_prog(job['prog'], wrap(tb)))
        if ca2 is None or cb2 is None:
            return {'id': job['id'], 'kind': 'eq', 'what': job['what'] + ' [commented]', 'ta': wrap(ta), 'tb': wrap(tb), 'a': oa['prog'], 'b': ob['prog'],
                    'eq_ab': True, 'eq_ba': True, 'eq_aa': False, 'eq_bb': False, 'rt_a': False, 'same_tokens': ta == tb}
        ca, cb = ca2, cb2
        ta, tb = wrap(ta), wrap(tb)
        job = dict(job, what=job['what'] + ' [commented]')
    rt = False
    try:
        rt = bool(ca == passes.parse_prog(job['prog'], generate_jaqal_program(ca)))
    except Exception:
        rt = False
    # the programs whose declarations and meaning the specification compares are the MODEL programs the two texts were
    # rendered from (that the parser denotes them is C02 / C07): a count the builder silently changes must not hide a difference
    return {'id': job['id'], 'kind': 'eq', 'what': job['what'], 'ta': ta, 'tb': tb,
            'a': passes.compress(job['ma']) if 'ma' in job else oa['prog'], 'b': passes.compress(job['mb']) if 'mb' in job else ob['prog'],
            'eq_ab': bool(ca == cb), 'eq_ba': bool(cb == ca), 'eq_aa': bool(ca == ca), 'eq_bb': bool(cb == cb),
            'rt_a': rt, 'same_tokens': ta == tb}


def main(tier):
    impl.guard_repo()
    rep = core.Report(PROP, tier)
    rng = random.Random(core.seed())
    wd = core.workdir(PROP)
    jobs = []
    for name, consts, budget in CONFIGS[tier]:
        progs = passes.enumerate_programs(rep, name, passes.ast_cfg(*consts), wd, budget=budget)
        rep.cov.setdefault('enumerated_programs', {})[name] = progs.total
        if len(progs) > budget:
            progs = rng.sample(progs, budget)
            rep.cov['exhaustive'] = False
        for n, p in enumerate(progs):
            ta = render.render_prog(p)
            jobs.append({'id': '%s/%d/same' % (name, n), 'prog': p, 'ta': ta, 'tb': ta, 'what': 'identical text', 'ma': p, 'mb': p})
            for m, (what, q) in enumerate(mutants(p)):
                jobs.append({'id': '%s/%d/m%d' % (name, n, m), 'prog': p, 'ta': ta, 'tb': render.render_prog(q), 'what': what, 'ma': p, 'mb': q})
                if (n + m) % 5 == 0:
                    jobs.append({'id': '%s/%d/m%d/cm' % (name, n, m), 'prog': p, 'ta': ta, 'tb': render.render_prog(q), 'what': what, 'wrap': True, 'ma': p, 'mb': q})
            for m, (what, qa, qb) in enumerate(twin_pairs(p)):
                jobs.append({'id': '%s/%d/t%d' % (name, n, m), 'prog': p, 'ta': render.render_prog(qa), 'tb': render.render_prog(qb), 'what': what, 'ma': qa, 'mb': qb})
    rep.phase('tlc_enumeration')
    recs = [r for r in core.pool_map(run_pair, jobs, chunksize=100) if r['kind'] == 'eq']
    rep.phase('replay')
    verdicts, stats = core.validate('Conform_RT', recs, wd, shard_size=1500)
    rep.phase('tlc_validation')
    rep.add_validation('pair', recs, verdicts, stats)
    kinds = {}
    for r in recs:
        k = r['what'] + (' (==)' if r['eq_ab'] else ' (!=)')
        kinds[k] = kinds.get(k, 0) + 1
    rep.cov['pairs_by_mutation_and_outcome'] = kinds
    rep.cov['rule'] = ('every enumerated program paired with itself and with each single-point mutant that still parses; '
                       'non-trivial = distinct mutant pairs')
    rep.cov['distinct_nontrivial'] = len({(r['ta'], r['tb']) for r in recs if not r['same_tokens']})
    rep.cov.setdefault('exhaustive', True)
    for r in recs[1:len(recs):max(1, len(recs) // 3)][:3]:
        rep.sample({'mutation': r['what'], 'a': r['ta'][-200:], 'b': r['tb'][-200:], 'a==b': r['eq_ab'],
                    'failing_clauses': verdicts.get(r['id'], {}).get('clauses', [])})
    for r in recs:
        r['text'] = r['what'] + ' | ' + r['tb'][-160:]
    rep.assumptions += ['projection / renderer trusted; mutants are generated on the AST and rendered, so "single token" '
                        'includes the two brackets of a block-kind change']
    core.cleanup(PROP)
    return rep.finish()
