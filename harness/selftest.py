"""./check selftest - demonstrates the binding (DESIGN 8.3): corrupted records must be rejected with the right clause,
dropped hook events must be rejected, and the model of the PINNED walker must violate termination."""
import copy
import json
import random

from . import core, passes, execprops, c02, impl, render


def expect(name, verdicts, cid, clause):
    got = verdicts.get(cid, {}).get('clauses', [])
    ok = clause in got
    print('selftest %-52s %s (clauses reported: %s)' % (name, 'ok' if ok else 'FAILED', got))
    return ok


def main():
    impl.guard_repo()
    wd = core.workdir('selftest')
    good = True
    rep = core.Report('SELFTEST', 'quick')
    # --- pinned walker model: TLC must find the non-termination lasso
    cfg = 'SPECIFICATION Spec\nCONSTANTS\n Which = 2\n Fixed = FALSE\nPROPERTY Termination\n'
    res = core.run_tlc('WalkAlg', cfg, wd, workers=1)
    ok = 'Termination' in res['violated']
    print('selftest %-52s %s' % ('WalkAlg Fixed=FALSE violates Termination', 'ok' if ok else 'FAILED'))
    good &= ok
    # --- pinned discovery algorithm: TLC must find the over-rejection (refinement of the bracket rule fails)
    cfg = execprops.exec_cfg(('H_E', 'M_E0', 'T_PM', 'O_PM', 4, 3), ('PinnedDiscoverAlgRefinesRule',)).replace('INVARIANT EmitX\n', '')
    res = core.run_tlc('ExecEnum', cfg, wd)
    ok = 'PinnedDiscoverAlgRefinesRule' in res['violated']
    print('selftest %-52s %s' % ('pinned DiscoverAlg does not refine DiscoverRule', 'ok' if ok else 'FAILED'))
    good &= ok
    # --- parser record: corrupt the recorded tree
    toks = [{'t': 'ID', 'v': 'g'}, {'t': 'ID', 'v': 'q'}, {'t': '[', 'v': ''}, {'t': 'INT', 'v': '0'}, {'t': ']', 'v': ''}]
    r = c02.run_case({'id': 'p', 'toks': toks, 'mode': 'spaced'})
    bad = copy.deepcopy(r)
    bad['id'] = 'p_bad'
    bad['obs']['tree']['c'][0]['v'] = 'h'
    v, _ = core.validate('Conform_Parse', [r, bad], wd)
    good &= 'p' not in v
    good &= expect('Conform_Parse: corrupted tree', v, 'p_bad', 'tree')
    # --- pass record: corrupt the output of expand_macros
    progs = passes.enumerate_programs(rep, 'x', passes.ast_cfg('H_M', 'M_MB', 'T_MB', 'O_MB', 2, 2), wd)
    p = [x for x in progs if "'v': 'm1'" in repr(x['body']) and x['macros'][0]['body']['body']][0]
    cases = passes.run_program({'id': 'm', 'prog': p, 'sites': [('expand_macros', [])]})
    c = [x for x in cases if x['site'] == 'expand_macros'][0]
    bad = copy.deepcopy(c)
    bad['id'] = 'm_bad'
    bad['out']['prog']['body'] = bad['out']['prog']['body'][:-1]
    v, _ = core.validate('Conform_Pass', [c, bad], wd)
    good &= c['id'] not in v
    good &= expect('Conform_Pass: dropped statement in the result', v, 'm_bad', 'meaning_mod_sub')
    # --- execution record: flip an amplitude, drop a hook event, move a readout
    from . import gates
    text = 'register q[2]\nloop 2 {\n subcircuit {\n  X q[0]\n  H q[1]\n }\n}\n'
    prog = dict(passes.EMPTY_PROG, natives=passes.exact_natives())
    rec = execprops.run_exec({'id': 'e', 'prog': prog, 'text': text, 'nv': 2, 'nq': 2, 'sites': ('run',), 'seed': 3})[0]
    b1 = copy.deepcopy(rec); b1['id'] = 'e_vec'; b1['obs']['subs'][0]['vec'][0] = [5, 5]
    b2 = copy.deepcopy(rec); b2['id'] = 'e_hook'; b2['obs']['applies'] = b2['obs']['applies'][1:]
    b3 = copy.deepcopy(rec); b3['id'] = 'e_visit'; b3['obs']['readouts'][1]['sub'] = 1
    b4 = copy.deepcopy(rec); b4['id'] = 'e_str'; b4['obs']['readouts'][0]['str'] = b4['obs']['readouts'][0]['str'][::-1] if b4['obs']['readouts'][0]['str'] != b4['obs']['readouts'][0]['str'][::-1] else [1 - x for x in b4['obs']['readouts'][0]['str']]
    # hook H3b (state after every gate application) and hook H2 (discovery walk): corrupt one logged field, drop one event
    b5 = copy.deepcopy(rec); b5['id'] = 'e_step'; b5['obs']['applied'][0]['vec'][0] = [7, 0]
    b6 = copy.deepcopy(rec); b6['id'] = 'e_nostep'; b6['obs']['applied'] = b6['obs']['applied'][:-1]
    b7 = copy.deepcopy(rec); b7['id'] = 'e_disc'; b7['obs']['discover'][1]['open'] = not b7['obs']['discover'][1]['open']
    b8 = copy.deepcopy(rec); b8['id'] = 'e_nodisc'; b8['obs']['discover'] = b8['obs']['discover'][:-1]
    v, _ = core.validate('Conform_Exec', [rec, b1, b2, b3, b4, b5, b6, b7, b8], wd)
    good &= rec['id'] not in v
    good &= expect('Conform_Exec: corrupted amplitude', v, 'e_vec', 'vector')
    good &= expect('Conform_Exec: dropped H3 apply event', v, 'e_hook', 'applied_gates')
    good &= expect('Conform_Exec: readout attributed to another subcircuit', v, 'e_visit', 'visits')
    good &= expect('Conform_Exec: corrupted readout string', v, 'e_str', 'as_str')
    good &= expect('Conform_Exec: corrupted state after a gate (H3b)', v, 'e_step', 'step_vectors')
    good &= expect('Conform_Exec: dropped H3b applied event', v, 'e_nostep', 'applied_count')
    good &= expect('Conform_Exec: corrupted discovery state (H2)', v, 'e_disc', 'discover_trace')
    good &= expect('Conform_Exec: dropped discovery event (H2)', v, 'e_nodisc', 'discover_trace')
    # --- validation comments: corrupt the written text, the data read back, the answer of the comparison
    from . import valid
    vtxt = '// EXPECTED READOUTS\n// 10 1 0\n// 01 2 1\n\n// EXPECTED PROBABILITIES\n// SUBCIRCUIT 0\n// 00 0 0.0\n// 10 1 1.0\n// 01 2 0.0\n// 11 3 0.0\n' \
           '// SUBCIRCUIT 1\n// 00 0 0.0\n// 10 1 0.0\n// 01 2 1.0\n// 11 3 0.0'
    base = {'nq': 2, 'rd': [{'sub': 0, 'value': 1}, {'sub': 1, 'value': 2}], 'pr': [[0, valid.PSCALE, 0, 0], [0, 0, valid.PSCALE, 0]]}
    g = dict(base, id='vg', site='vgen', lines=valid.tokenize(vtxt), obs={'cls': 'ok'})
    g_bad = dict(g, id='vg_bad', lines=valid.tokenize(vtxt.replace('// 01 2 1', '// 01 2 0')))
    r = dict(valid.read_case('vr', vtxt), nq=2)
    r_bad = copy.deepcopy(r); r_bad['id'] = 'vr_bad'; r_bad['obs']['meas'][1]['v'] = 3
    k = dict(base, id='vk', site='vcheck', lines=valid.tokenize(vtxt), obs={'cls': 'ok', 'validated': ['measurements agree', 'probabilities agree'], 'msg': ''})
    k_bad = dict(k, id='vk_bad', lines=valid.tokenize(vtxt.replace('// 10 1 0', '// 10 1 1')))       # differs, yet "accepted"
    v, _ = core.validate('Conform_Validate', [g, g_bad, r, r_bad, k, k_bad], wd)
    good &= not ({'vg', 'vr', 'vk'} & set(v))
    good &= expect('Conform_Validate: written line with another subcircuit', v, 'vg_bad', 'written_lines')
    good &= expect('Conform_Validate: corrupted data read back', v, 'vr_bad', 'read_readouts')
    good &= expect('Conform_Validate: a difference that was accepted', v, 'vk_bad', 'difference_rejected')
    core.cleanup('selftest')
    print('selftest', 'ok' if good else 'FAILED')
    return 0 if good else 2
