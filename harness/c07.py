"""C07 - identifiers resolve lexically; statement meaning ignores unrelated statements.

The AstEnum configuration uses a deliberately colliding name pool (let a / register q / alias r versus macro
parameters a, q, r): the MODEL program states the lexical binding of every occurrence; the rendered text only
has names.  The real parser's circuit is projected by object kind and TLC compares meanings (main body and
every macro body) with the model's."""
from . import passes

PROP = 'C07'
CONFIGS = {
    'quick': [('collisions', ('H_B', 'M_BQ', 'T_B', 'O_B', 2, 2), 6000)],
    'thorough': [('collisions', ('H_B', 'M_B', 'T_B', 'O_B', 2, 2), 120000)],
}


def owned(site):
    return {'accepted', 'denotes', 'macros', 'registers', 'lets'} if site == 'parse' else {'meaning_mod_sub', 'accepted', 'macros_kept'}


def nontrivial(prog):
    """the same gate text occurs in two different scopes"""
    from . import render
    seen = {}
    def texts(stmts, scope):
        for s in stmts:
            if s['k'] == 'gate':
                seen.setdefault(' '.join([s['v']] + [render.r_arg(a) for a in s['args']]), set()).add(scope)
            elif s['k'] == 'loop':
                texts(s['body']['body'], scope)
            elif s['k'] == 'blk':
                texts(s['body'], scope)
    texts(prog['body'], 'main')
    for m in prog['macros']:
        texts(m['body']['body'], m['v'])
    return any(len(v) > 1 for v in seen.values())


def main(tier):
    def extra(rng):
        return []
    import types
    # every program is also rendered with the macro definitions after the main body when the body calls none
    orig = passes.run_program
    return passes.run_property(
        PROP, tier, CONFIGS, lambda p, rng: [('expand_macros', []), ('fill_in_let', [])], owned, nontrivial,
        'complete programs of the AstEnum machine over a colliding name pool (let a / register q / alias r vs macro '
        'parameters a, q, r), textually identical gate statements in several scopes; each program rendered with the '
        'macros before the body and, when the body calls no macro, also after it; non-trivial = distinct programs in '
        'which the same gate text occurs in two scopes', variants=('macros_last', 'edge'))
