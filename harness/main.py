"""./check entry point.  Exit codes: 0 property held on everything explored; 1 violation (a line
`VIOLATION property=<id> replay=<path>` is printed); 2 machinery failure (never silent)."""
import argparse
import importlib
import os
import sys
import traceback


def main():
    ap = argparse.ArgumentParser()
    ap.add_argument('prop')
    ap.add_argument('--tier', default=os.environ.get('VERIF_TIER', 'quick'), choices=['quick', 'thorough'])
    ap.add_argument('--replay', default=None)
    a = ap.parse_args()
    from . import core
    try:
        if a.prop == 'setup':
            from . import setup
            return setup.main()
        if a.prop == 'selftest':
            from . import selftest
            return selftest.main()
        if a.replay:
            from . import replay
            return replay.main(a.prop, a.replay)
        mod = importlib.import_module('harness.' + a.prop.lower())
        return mod.main(a.tier)
    except core.MachineryError as e:
        print('MACHINERY-FAILURE %s: %s' % (a.prop, e))
        return 2
    except Exception:
        traceback.print_exc()
        print('MACHINERY-FAILURE %s: unexpected exception in the harness' % a.prop)
        return 2


if __name__ == '__main__':
    sys.exit(main())
