"""Child process for C16 histories: parse the given texts in order in THIS fresh interpreter and print the outcomes as
one JSON line.  Deliberately minimal imports (the point is what a fresh interpreter has loaded).
argv: <util 0|1> <pulses dir> <json file with the list of texts>"""
import json
import sys
import hashlib

if sys.argv[1] == '1':
    import importlib.util  # noqa
pulses = sys.argv[2]
texts = json.load(open(sys.argv[3]))
from jaqalpaq.parser import parse_jaqal_string          # noqa
from jaqalpaq.error import JaqalError          # noqa
from jaqalpaq.parser.slyparse import JaqalParseError          # noqa

outs = []
for text in texts:
    try:
        c = parse_jaqal_string(text, autoload_pulses='usepulses' in text, import_path=pulses)
        # what the process does with an accepted text: the circuit, the text generated from it, and (when the program
        # has prepare / measure sections) its execution - all of it must be the same whatever was processed before
        dig = hashlib.sha1(repr(c).encode()).hexdigest()[:12]
        try:
            from jaqalpaq.generator import generate_jaqal_program
            dig += ' gen:' + hashlib.sha1(generate_jaqal_program(c).encode()).hexdigest()[:12]
        except BaseException as e:      # noqa
            dig += ' gen:' + type(e).__name__
        if 'prepare_all' in text:
            try:
                import numpy
                from jaqalpaq.run import run_jaqal_circuit
                numpy.random.seed(7)
                r = run_jaqal_circuit(c)
                dig += ' run:%s' % [(x.subcircuit.index, x.as_int) for x in r.readouts]
            except BaseException as e:      # noqa
                dig += ' run:' + type(e).__name__
        outs.append({'cls': 'ok', 'pos': 'none', 'digest': dig})
    except JaqalParseError as e:
        outs.append({'cls': 'parse_error', 'pos': '%s:%s' % (e.line, e.column), 'digest': ''})
    except JaqalError as e:
        outs.append({'cls': 'jaqal_error', 'pos': 'none', 'digest': ''})
    except ImportError as e:
        outs.append({'cls': 'import_error', 'pos': 'none', 'digest': ''})
    except BaseException as e:      # noqa
        outs.append({'cls': 'crash:' + type(e).__name__, 'pos': 'none', 'digest': str(e)[:80]})
print('OUTS ' + json.dumps(outs))
