"""Child process for C16 histories: parse the given texts in order in THIS fresh interpreter and print the outcomes as
one JSON line.  Deliberately minimal imports (the point is what a fresh interpreter has loaded).
argv: <util 0|1> <pulses dir> <json file with the list of texts>"""
import json
import sys
import hashlib

if sys.argv[1] == '1':
    import importlib.util  # noqa
pulses = sys.argv[2]
texts = json.load(open(sys.argv[3]))
from jaqalpaq.parser import parse_jaqal_string          # noqa
from jaqalpaq.error import JaqalError          # noqa
from jaqalpaq.parser.slyparse import JaqalParseError          # noqa

outs = []
for text in texts:
    try:
        c = parse_jaqal_string(text, autoload_pulses='usepulses' in text, import_path=pulses)
        outs.append({'cls': 'ok', 'pos': 'none', 'digest': hashlib.sha1(repr(c).encode()).hexdigest()[:12]})
    except JaqalParseError as e:
        outs.append({'cls': 'parse_error', 'pos': '%s:%s' % (e.line, e.column), 'digest': ''})
    except JaqalError as e:
        outs.append({'cls': 'jaqal_error', 'pos': 'none', 'digest': ''})
    except ImportError as e:
        outs.append({'cls': 'import_error', 'pos': 'none', 'digest': ''})
    except BaseException as e:      # noqa
        outs.append({'cls': 'crash:' + type(e).__name__, 'pos': 'none', 'digest': str(e)[:80]})
print('OUTS ' + json.dumps(outs))
