from . import execprops


def main(tier):
    return execprops.main('C13', tier)
