"""Shared driver for the pass properties (C04, C05, C06, C09, C10): TLC enumerates programs with the
AstEnum builder machine, the harness renders each as Jaqal text, runs the real parser and the real
passes, projects inputs and outputs, and TLC (Conform_Pass) judges every recorded call."""
import glob
import json
import os
import random

from . import core, render, impl, project, gates

EMPTY_PROG = {'lets': [], 'regs': [], 'macros': [], 'imports': [], 'natives': [], 'body': []}
_EXACT_NATIVES = None


def exact_natives():
    global _EXACT_NATIVES
    if _EXACT_NATIVES is None:
        _EXACT_NATIVES = [project.native(g) for g in gates.exact_gates().values()]
    return _EXACT_NATIVES


def natives_of_tag(tag):
    """model header tag -> projection of the corresponding real gate table"""
    if not tag:
        return []
    if tag == ['active']:
        return [project.native(g) for g in gates.active_gates().values()]
    return exact_natives()


def ast_cfg(headers, macrodefs, topgates, openers, maxnodes, maxdepth, invariants=('MeaningDefined', 'EraseAgrees'),
            outer=None):
    s = ('SPECIFICATION Spec\nCONSTANTS\n Headers <- %s\n MacroDefs <- %s\n TopGates <- %s\n OuterGates <- %s\n Openers <- %s\n'
         ' MaxNodes = %d\n MaxDepth = %d\nINVARIANT Emit\n' % (headers, macrodefs, topgates, outer or topgates, openers,
                                                                  maxnodes, maxdepth))
    for inv in invariants:
        s += 'INVARIANT %s\n' % inv
    return s


class Progs(list):
    """the programs kept from an enumeration; .total = number of distinct programs TLC emitted"""
    total = 0


def enumerate_programs(rep, name, cfg, wd, module='AstConfigs', timeout=1800, sim=None, budget=None, strata=None):
    """Run the builder machine (exhaustive BFS, or sim=(num, depth): TLC's random simulation of the same machine for
    programs deeper than BFS can reach); return the complete programs TLC emitted - all of them, or (budget) a
    reproducible uniform sample taken while TLC runs (core.Sink), so that memory stays bounded."""
    # strata = (classify(line) -> class, {class: share of the budget}): a stratified sample, so that rare kinds of program
    # (say, a loop somewhere below a parallel block) are not left to chance
    if strata and budget:
        sink = core.Sink('<<"PROG", ', budget, classify=strata[0], budgets={c: max(1, int(budget * f)) for c, f in strata[1].items()})
    else:
        sink = core.Sink('<<"PROG", ', budget)
    if sim:
        res = core.run_tlc(module, cfg, wd, timeout=timeout, workers=8, simulate='num=%d' % sim[0], depth=sim[1],
                           tlc_seed=core.seed() + 1, sink=sink)
        rep.add_model_check('AstEnum[%s] simulate num=%d depth=%d' % (name, sim[0], sim[1]), res)
    else:
        res = core.run_tlc(module, cfg, wd, timeout=timeout, sink=sink)
        rep.add_model_check('AstEnum[%s]' % name, res)
    progs = Progs()
    for line in sink.all_lines():
        s = line[len('<<"PROG", '):].rstrip()
        if not s.endswith('>>'):
            raise core.MachineryError('truncated PROG line from TLC')
        p = json.loads(json.loads(s[:-2]))
        p['natives'] = natives_of_tag(p['natives'])
        progs.append(p)
    if not progs:
        raise core.MachineryError('AstEnum[%s] emitted no program\n%s' % (name, res['out'][-1500:]))
    progs.total = sink.total
    if sink.sampled:
        rep.cov['exhaustive'] = False
    return progs


def pyval(num):
    return int(num['v']) if num['t'] == 'int' else float(num['v'])


def parse_prog(prog, text=None, **kw):
    from jaqalpaq.parser import parse_jaqal_string
    text = text if text is not None else render.render_prog(prog)
    inject = None
    if prog['natives']:
        inject = gates.select([n['v'] for n in prog['natives']])
    return parse_jaqal_string(text, inject_pulses=inject, autoload_pulses=False, **kw)


def compress(prog):
    """pure compression: a native table identical to the exact table is replaced by a one-element tag
    (applied to every projection alike, so equality of tables is preserved)"""
    if prog['natives'] and prog['natives'] == exact_natives():
        prog = dict(prog)
        prog['natives'] = [{'v': '<exact>', 'kinds': [], 'cls': 'tag', 'unitary': False}]
    return prog


def outcome(fn):
    r, e = impl.with_cpu_limit(fn)
    if e is None:
        return {'cls': 'ok', 'prog': compress(project.circuit(r)), 'msg': ''}, r
    cls = 'timeout' if isinstance(e, impl.Timeout) else impl.classify_exc(e)
    return {'cls': cls, 'prog': EMPTY_PROG, 'msg': ('%s: %s' % (type(e).__name__, e))[:200]}, None


def ovr_dict(ovr):
    return {o['v']: pyval(o['val']) for o in ovr}


def apply_site(site, circ, ovr, extra=None):
    from jaqalpaq.core.algorithm import expand_macros, fill_in_let, expand_subcircuits
    from jaqalpaq.core.algorithm.fill_in_map import fill_in_map
    if site == 'expand_macros':
        return lambda: expand_macros(circ)
    if site == 'expand_macros_preserve':
        return lambda: expand_macros(circ, preserve_definitions=True)
    if site == 'fill_in_let':
        return lambda: fill_in_let(circ, override_dict=ovr_dict(ovr) if ovr else None)
    if site == 'fill_in_map':
        return lambda: fill_in_map(circ)
    if site == 'fill_in_let_map':
        return lambda: fill_in_map(fill_in_let(circ, override_dict=ovr_dict(ovr) if ovr else None))
    if site == 'expand_subcircuits':
        return lambda: expand_subcircuits(circ)
    if site in ('expand_subcircuits_defs', 'expand_subcircuits_again'):
        # caller-supplied prepare / measure definitions; "again": the plain call AFTER such a call on the same circuit object
        from jaqalpaq.core.gatedef import BusyGateDefinition
        hw = dict(prepare_def=BusyGateDefinition('prepare_hw'), measure_def=BusyGateDefinition('measure_hw'))
        if site == 'expand_subcircuits_defs':
            return lambda: expand_subcircuits(circ, **hw)
        return lambda: (expand_subcircuits(circ, **hw), expand_subcircuits(circ))[1]
    if site == 'unit_timing':
        from jaqalpaq.core.algorithm import normalize_blocks_with_unitary_timing
        return lambda: normalize_blocks_with_unitary_timing(circ)
    if site == 'unit_timing_again':
        # the second call on the same circuit object (the input was projected before the first)
        from jaqalpaq.core.algorithm import normalize_blocks_with_unitary_timing
        return lambda: (normalize_blocks_with_unitary_timing(circ), normalize_blocks_with_unitary_timing(circ))[1]
    raise ValueError(site)


def run_program(job):
    """job = {id, prog (model AST), sites: [(site, ovr)], text?}; returns the recorded cases"""
    prog = job['prog']
    text = job.get('text') or render.render_prog(prog, macros_last=job.get('macros_last', False))
    cases = []
    if job.get('route') == 'builder':
        # programs the text grammar cannot express (AstEnum openers with `any`) are built through the S-expression API
        from jaqalpaq.core.circuitbuilder import build
        sx = render.sexpr_prog(prog)
        text = 'builder: ' + repr(sx)
        pout, circ = outcome(lambda: build(sx, inject_pulses=gates.select([n['v'] for n in prog['natives']]) if prog['natives'] else None))
    else:
        pout, circ = outcome(lambda: parse_prog(prog, text))
    if not job.get('text') and job.get('route') != 'builder':      # a witness given as text has no model program to compare the parse with
        cases.append({'id': job['id'] + '/parse', 'site': 'parse', 'inp': compress(prog), 'ovr': [], 'out': pout,
                      'text': text, 'prep': 'prepare_all', 'meas': 'measure_all'})
    if circ is None:
        return cases
    inp = pout['prog']
    for n, (site, ovr) in enumerate(job['sites']):
        o, _ = outcome(apply_site(site, circ, ovr))
        hw = site == 'expand_subcircuits_defs'
        cases.append({'id': '%s/%s/%d' % (job['id'], site, n), 'site': site, 'inp': inp, 'ovr': ovr, 'out': o,
                      'text': text, 'prep': 'prepare_hw' if hw else 'prepare_all', 'meas': 'measure_hw' if hw else 'measure_all'})
    return cases


def num_json(x):
    return project.num(x)


def override_choices(prog, rng, pool, max_sets):
    """override dictionaries over subsets of the declared constants (inputs only, no semantics)"""
    names = [l['v'] for l in prog['lets']]
    out = [[]]
    cands = []
    for nm in names:
        for v in pool:
            cands.append([{'v': nm, 'val': num_json(v)}])
    if len(names) >= 2:
        for v in pool[:3]:
            for w in pool[:3]:
                cands.append([{'v': names[0], 'val': num_json(v)}, {'v': names[1], 'val': num_json(w)}])
    rng.shuffle(cands)
    return out + cands[:max_sets]


EDGE_VALUES = [0, -1, 1, 2, 3, 4]


def edge_variants(prog, rng, k=1):
    """copies of a model program in which ONE integer literal (let value, register size, alias bound / index, qubit index,
    integer gate argument, loop or subcircuit count) is replaced by another small value, zero and -1 included.  Pure
    input generation: whether the variant is valid, and what it means, is decided by the specification."""
    import copy
    sites = []

    def stmts(ss, path):
        for i, st in enumerate(ss):
            if st['k'] == 'gate':
                for a, arg in enumerate(st['args']):
                    if arg['k'] == 'num' and arg['t'] == 'int':
                        sites.append(path + [i, 'args', a])
                    elif arg['k'] == 'qubit' and arg['idx']['k'] == 'num':
                        sites.append(path + [i, 'args', a, 'idx'])
            elif st['k'] == 'loop':
                if st['count']['k'] == 'num':
                    sites.append(path + [i, 'count'])
                stmts(st['body']['body'], path + [i, 'body', 'body'])
            elif st['k'] == 'blk':
                if st['sub'] and st['iters']['k'] == 'num':
                    sites.append(path + [i, 'iters'])
                stmts(st['body'], path + [i, 'body'])

    for j, l in enumerate(prog['lets']):
        if l['val']['k'] == 'num' and l['val']['t'] == 'int':
            sites.append(['lets', j, 'val'])
    for j, r in enumerate(prog['regs']):
        for fld in ('size', 'idx', 'start', 'stop', 'step'):
            if r[fld]['k'] == 'num':
                sites.append(['regs', j, fld])
    stmts(prog['body'], ['body'])
    for j, m in enumerate(prog['macros']):
        stmts(m['body']['body'], ['macros', j, 'body', 'body'])
    out = []
    for path in rng.sample(sites, min(k, len(sites))):
        q = copy.deepcopy(prog)
        cur = q
        for step in path[:-1]:
            cur = cur[step]
        old = cur[path[-1]]
        val = rng.choice([v for v in EDGE_VALUES if str(v) != old['v']])
        cur[path[-1]] = project.num(val)
        out.append(q)
    return out


def corpus_files():
    root = os.path.join(os.path.dirname(os.environ.get('VERIF_REPO_SRC', '/repo/src').rstrip('/')), 'examples', 'jaqal')
    return sorted(glob.glob(os.path.join(root, '**', '*.jaqal'), recursive=True))


def suite_pass_records(wd, sites):
    """every call of a transformation pass that the repository's OWN tests make (recorded by harness/pytest_record.py in a
    run of those tests; nothing in /repo changes), as cases of the trace specification: code -> spec on inputs and call
    sequences nobody here wrote"""
    import subprocess
    import sys
    rec = os.path.join(wd, 'suite_passes.ndjson')
    if os.path.exists(rec):
        os.remove(rec)
    src = os.environ.get('VERIF_REPO_SRC', '/repo/src')
    env = dict(os.environ, PYTHONPATH=core.ROOT + ':' + src, VERIF_RECORD_PASSES=rec)
    env.pop('JAQALPAQ_VERIF_TRACE', None)
    subprocess.run([sys.executable, '-m', 'pytest', '-q', '-p', 'no:cacheprovider', '-p', 'harness.pytest_record', 'tests/core',
                    'tests/jaqalparser'], cwd=os.path.dirname(src.rstrip('/')), env=env, capture_output=True, text=True, timeout=900)
    out, seen = [], set()
    if os.path.exists(rec):
        for line in open(rec):
            if line in seen:
                continue
            seen.add(line)
            r = json.loads(line)
            if r['site'] in sites:
                out.append(dict(r, id='suite/%d' % len(out), prep='prepare_all', meas='measure_all',
                                text='[call recorded from the repository test suite] ' + render_safe(r['inp'])))
        os.remove(rec)
    return out


def render_safe(prog):
    try:
        return render.render_prog(prog if prog['natives'] != [{'v': '<exact>', 'kinds': [], 'cls': 'tag', 'unitary': False}]
                                  else dict(prog, natives=[]))
    except Exception:
        return '<unrenderable>'


def run_property(prop, tier, configs, sites_fn, owned, nontrivial, rule, module='Conform_Pass', extra_jobs=None,
                 shard_size=3000, variants=(), extra_stage=None, strata=None):
    """Generic driver: enumerate (TLC) -> render/parse/apply passes (real code) -> validate (TLC)."""
    impl.guard_repo()
    rep = core.Report(prop, tier)
    rng = random.Random(core.seed())
    wd = core.workdir(prop)
    jobs = []
    for entry in configs[tier]:
        name, consts, budget = entry[:3]
        progs = enumerate_programs(rep, name, ast_cfg(*consts), wd, sim=entry[3] if len(entry) > 3 else None, budget=budget,
                                   strata=strata)
        rep.cov.setdefault('enumerated_programs', {})[name] = progs.total
        if len(progs) > budget:
            progs = rng.sample(progs, budget)
            rep.cov['exhaustive'] = False
        for n, p in enumerate(progs):
            jobs.append({'id': '%s/%d' % (name, n), 'prog': p, 'sites': sites_fn(p, rng), 'route': 'builder' if name.endswith('-builder') else 'text'})
            if 'edge' in variants and n % 3 == 0:
                for m, q in enumerate(edge_variants(p, rng)):
                    jobs.append({'id': '%s/%d/edge%d' % (name, n, m), 'prog': q, 'sites': sites_fn(q, rng),
                                 'route': 'builder' if name.endswith('-builder') else 'text'})
            if 'macros_last' in variants:
                names = {m['v'] for m in p['macros']}
                if p['macros'] and not any(("'v': '%s'" % nm) in repr(p['body']) for nm in names):
                    jobs.append({'id': '%s/%d/ml' % (name, n), 'prog': p, 'sites': sites_fn(p, rng), 'macros_last': True})
    for f in rep.findings:
        if 'witness' in f and 'text' in f['witness'] and f['site'] != 'parse':
            w = f['witness']
            wp = dict(EMPTY_PROG, natives=exact_natives() if w.get('natives') else [])
            jobs.append({'id': 'witness/' + f['id'], 'prog': wp, 'text': w['text'],
                         'sites': [(f['site'], [{'v': k, 'val': project.num(v)} for k, v in w.get('ovr', [])])]
                         if f['site'] != 'parse' else []})
    if extra_jobs:
        jobs += extra_jobs(rng)
    # code -> spec on programs nobody generated for the purpose: every example file of the repository goes through the
    # same calls and is judged by the same clauses (the model input is the projection of the parsed circuit)
    ncorpus = 0
    for path in corpus_files():
        text = open(path).read()
        o, _ = outcome(lambda: parse_prog(EMPTY_PROG, text))
        if o['cls'] != 'ok':
            continue
        ncorpus += 1
        jobs.append({'id': 'corpus/' + os.path.basename(path)[:-6], 'prog': dict(EMPTY_PROG), 'text': text,
                     'sites': sites_fn(o['prog'], rng), 'prog_key': 'corpus/' + path})
    rep.cov['repository_example_files'] = ncorpus
    rep.phase('tlc_enumeration')
    recs = [c for cs in core.pool_map(run_program, jobs, chunksize=100) for c in cs]
    if module == 'Conform_Pass':
        suite = suite_pass_records(wd, {st for st, _ in sites_fn(dict(EMPTY_PROG), rng)})
        rep.cov['pass_calls_recorded_from_repository_tests'] = len(suite)
        recs += suite
    rep.phase('replay')
    verdicts, stats = core.validate(module, recs, wd, shard_size=shard_size)
    rep.phase('tlc_validation')
    for f in rep.findings:
        if 'witness' in f:
            hit = [v for k, v in verdicts.items() if k.startswith('witness/' + f['id'] + '/')
                   and f['clause'] in v['clauses'] and k.split('/')[2] == f['site']]
            rep.witness(f['id'], bool(hit))
    bysite = {}
    for r in recs:
        bysite.setdefault(r['site'], []).append(r)
    first = True
    for site, rs in sorted(bysite.items()):
        ids = {r['id'] for r in rs}
        rep.add_validation(site, rs, {k: v for k, v in verdicts.items() if k in ids},
                           stats if first else {'states': 0, 'transitions': 0}, owned=owned(site))
        first = False
    rep.cov['rule'] = rule
    rep.cov['distinct_nontrivial'] = len({j['prog_key'] if 'prog_key' in j else repr(j['prog']['body']) + repr(j['prog']['macros'])
                                          for j in jobs if nontrivial(j['prog'])})
    rep.cov.setdefault('exhaustive', True)
    step = max(1, len(recs) // 4)
    for r in recs[1:len(recs):step]:
        rep.sample({'site': r['site'], 'text': r['text'], 'override': ovr_dict(r['ovr']), 'outcome': r['out']['cls'],
                    'failing_clauses': verdicts.get(r['id'], {}).get('clauses', [])})
    rep.assumptions += ['harness/project.py and harness/render.py are trusted translations',
                        'meaning is compared up to the Seq-in-Seq / Par-in-Par identification (DESIGN B.3)']
    if extra_stage:
        extra_stage(rep, wd, rng)
    core.cleanup(prop)
    return rep.finish()
