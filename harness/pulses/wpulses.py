"""Second pulse fixture with overlapping names (X has another signature here)."""
from jaqalpaq.core.gatedef import GateDefinition
from jaqalpaq.core.parameter import Parameter, ParamType


class jaqal_gates:
    ALL_GATES = {
        'X': GateDefinition('X', [Parameter('q', ParamType.QUBIT), Parameter('t', ParamType.FLOAT)]),
        'Y': GateDefinition('Y', [Parameter('q', ParamType.QUBIT)]),
    }
