"""Pulse-definition fixture for the C14 / C16 checks (imported relatively through import_path)."""
from jaqalpaq.core.gatedef import GateDefinition, BusyGateDefinition
from jaqalpaq.core.parameter import Parameter, ParamType


class jaqal_gates:
    ALL_GATES = {
        'prepare_all': BusyGateDefinition('prepare_all'),
        'measure_all': BusyGateDefinition('measure_all'),
        'X': GateDefinition('X', [Parameter('q', ParamType.QUBIT)]),
        'R': GateDefinition('R', [Parameter('q', ParamType.QUBIT), Parameter('k', ParamType.INT)]),
    }
