"""Renderers: specification values -> concrete text / API calls (DESIGN 4.2).  Pure formatting."""

LIT = {'NL': '\n', 'LC': '// c', 'WS': ' '}
WORDY = {'ID', 'INT', 'NUM', 'DOTID', 'register', 'let', 'map', 'macro', 'loop', 'subcircuit', 'from',
         'usepulses', 'import', 'as'}


def tok_text(t):
    k = t['t']
    if k in ('ID', 'INT', 'NUM', 'DOTID'):
        return t['v']
    if k == 'BC':
        return '/* c */' if t['v'] == '0' else '/* c\nc */'
    return LIT.get(k, k)


def render_tokens(toks, mode='spaced'):
    """Token list -> (text, [character offset of every token])."""
    out = []
    offs = []
    pos = 0
    prev = None
    for t in toks:
        s = tok_text(t)
        if prev is not None:
            need = mode == 'spaced' or (prev['t'] in WORDY and t['t'] in WORDY)
            # '/' followed by '*' or '/' would start a comment; '<' '>' etc. are single characters
            if need:
                out.append(' ')
                pos += 1
        offs.append(pos)
        out.append(s)
        pos += len(s)
        prev = t
    return ''.join(out), offs
