"""Renderers: specification values -> concrete text / API calls (DESIGN 4.2).  Pure formatting."""

LIT = {'NL': '\n', 'LC': '// c', 'WS': ' '}
WORDY = {'ID', 'INT', 'NUM', 'DOTID', 'register', 'let', 'map', 'macro', 'loop', 'subcircuit', 'from',
         'usepulses', 'import', 'as'}


def tok_text(t):
    k = t['t']
    if k in ('ID', 'INT', 'NUM', 'DOTID'):
        return t['v']
    if k == 'BININT':       # payload = value; written as a quoted bit string, zero padded to 2 bits
        return "'%s'" % format(int(t['v']), 'b').zfill(2)
    if k == 'BC':
        return '/* c */' if t['v'] == '0' else '/* c\nc */'
    return LIT.get(k, k)


def render_tokens(toks, mode='spaced'):
    """Token list -> (text, [character offset of every token])."""
    out = []
    offs = []
    pos = 0
    prev = None
    for t in toks:
        s = tok_text(t)
        if prev is not None:
            need = mode == 'spaced' or (prev['t'] in WORDY and t['t'] in WORDY)
            # '/' followed by '*' or '/' would start a comment; '<' '>' etc. are single characters
            if need:
                out.append(' ')
                pos += 1
        offs.append(pos)
        out.append(s)
        pos += len(s)
        prev = t
    return ''.join(out), offs


# ---------------------------------------------------------------------------------------------
# AST (spec/JaqalSem.tla records as Python dicts) -> Jaqal text

def r_ix(x):
    k = x['k']
    if k == 'num':
        return x['v']
    if k in ('let', 'param', 'id', 'reg', 'qalias'):
        return x['v']
    if k == 'none':
        return ''
    raise ValueError(x)


def r_arg(a):
    if a['k'] == 'qubit':
        return '%s[%s]' % (a['base']['v'], r_ix(a['idx']))
    return r_ix(a)


def r_stmt(s, ind, out, sep='\n'):
    pad = '  ' * ind
    if s['k'] == 'gate':
        out.append(pad + ' '.join([s['v']] + [r_arg(a) for a in s['args']]))
    elif s['k'] == 'loop':
        b = s['body']
        out.append(pad + 'loop %s %s' % (r_ix(s['count']), '<' if b['par'] else '{'))
        for x in b['body']:
            r_stmt(x, ind + 1, out)
        out.append(pad + ('>' if b['par'] else '}'))
    elif s['k'] == 'blk':
        if s['sub']:
            it = s['iters']
            head = 'subcircuit ' + ('' if (it['k'] == 'num' and it['cv'] == '1' and it['t'] == 'int') else r_ix(it) + ' ')
            out.append(pad + head + '{')
        else:
            out.append(pad + ('<' if s['par'] else '{'))
        for x in s['body']:
            r_stmt(x, ind + 1, out)
        out.append(pad + ('>' if s['par'] and not s['sub'] else '}'))
    else:
        raise ValueError(s)


def r_reg(r):
    if r['k'] == 'reg':
        return 'register %s[%s]' % (r['v'], r_ix(r['size']))
    if r['mode'] == 'whole':
        return 'map %s %s' % (r['v'], r['src'])
    if r['mode'] == 'index':
        return 'map %s %s[%s]' % (r['v'], r['src'], r_ix(r['idx']))
    s = '%s:%s' % (r_ix(r['start']), r_ix(r['stop']))
    if r['step']['k'] != 'none':
        s += ':' + r_ix(r['step'])
    return 'map %s %s[%s]' % (r['v'], r['src'], s)


def render_prog(p, macros_last=False):
    out = []
    for m in p['imports']:
        out.append('from %s usepulses *' % m)
    for l in p['lets']:
        out.append('let %s %s' % (l['v'], r_ix(l['val'])))
    for r in p['regs']:
        out.append(r_reg(r))
    mac = []
    for m in p['macros']:
        b = m['body']
        mac.append('macro %s %s' % (' '.join([m['v']] + list(m['params'])), '<' if b['par'] else '{'))
        for x in b['body']:
            r_stmt(x, 1, mac)
        mac.append('>' if b['par'] else '}')
    if not macros_last:
        out += mac
    for s in p['body']:
        r_stmt(s, 0, out)
    if macros_last:
        out += mac
    return '\n'.join(out) + '\n'


# ---------------------------------------------------------------------------------------------
# AST -> S-expression for jaqalpaq.core.circuitbuilder.build (the builder route)

def s_ix(x):
    k = x['k']
    if k == 'num':
        return int(x['v']) if x['t'] == 'int' else float(x['v'])
    if k == 'none':
        return None
    return x['v']


def s_arg(a):
    if a['k'] == 'qubit':
        return ('array_item', a['base']['v'], s_ix(a['idx']))
    return s_ix(a)


def s_stmt(s):
    if s['k'] == 'gate':
        return ['gate', s['v']] + [s_arg(a) for a in s['args']]
    if s['k'] == 'loop':
        return ['loop', s_ix(s['count']), s_stmt(s['body'])]
    if s['sub']:
        return ['subcircuit_block', s_ix(s['iters'])] + [s_stmt(x) for x in s['body']]
    return ['parallel_block' if s['par'] else 'sequential_block'] + [s_stmt(x) for x in s['body']]


def sexpr_prog(p):
    out = ['circuit']
    for m in p['imports']:
        out.append(['usepulses', m, '*'])
    for l in p['lets']:
        out.append(['let', l['v'], s_ix(l['val'])])
    for r in p['regs']:
        if r['k'] == 'reg':
            out.append(['register', r['v'], s_ix(r['size'])])
        elif r['mode'] == 'whole':
            out.append(['map', r['v'], r['src']])
        elif r['mode'] == 'index':
            out.append(['map', r['v'], r['src'], s_ix(r['idx'])])
        else:
            out.append(['map', r['v'], r['src'], s_ix(r['start']), s_ix(r['stop']), s_ix(r['step'])])
    for m in p['macros']:
        out.append(['macro', m['v']] + list(m['params']) + [s_stmt(m['body'])])
    for s in p['body']:
        out.append(s_stmt(s))
    return out
