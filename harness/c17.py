"""C17 - Jaqal text, the builder API and Q-syntax build the same circuit.

The behaviours of the AstEnum builder machine (the Front machine of DESIGN 3.5: its Open/Close actions are the
frames of the Q-syntax stack) are rendered three ways: Jaqal text -> parser; object-oriented CircuitBuilder calls;
Q-syntax calls driven through context managers.  TLC (Conform_Front) validates equality of the three circuits, the
implicit prepare/measure wrapping (JaqalFront!QWrap) and the freshness of auto-generated names when some lets /
the register are left anonymous while the user's own names look like auto-generated ones."""
import random

from . import core, passes, impl, render, project

PROP = 'C17'
CONFIGS = {
    'quick': [('front', ('H_F', 'M_E0', 'T_F', 'O_F', 3, 3), 4000)],
    'thorough': [('front', ('H_F', 'M_E0', 'T_F', 'O_F', 5, 4), 80000)],
}
ANON = [[], ['a'], ['q'], ['a', 'q'], ['a', '__c0'], ['__r0', 'q'], ['a', '__r0'], ['a', '__r0', 'q']]


def build_oo(prog):
    from jaqalpaq.core.circuitbuilder import CircuitBuilder, SequentialBlockBuilder, ParallelBlockBuilder
    cb = CircuitBuilder()
    for l in prog['lets']:
        cb.let(l['v'], render.s_ix(l['val']), unevaluated=True)
    for r in prog['regs']:
        cb.register(r['v'], render.s_ix(r['size']), unevaluated=True)

    def add(bb, stmts):
        for s in stmts:
            if s['k'] == 'gate':
                bb.gate(s['v'], *[render.s_arg(a) for a in s['args']])
            elif s['k'] == 'loop':
                lb = ParallelBlockBuilder() if s['body']['par'] else SequentialBlockBuilder()
                add(lb, s['body']['body'])
                bb.loop(render.s_ix(s['count']), lb, unevaluated=True)
            elif s['sub']:
                add(bb.subcircuit(render.s_ix(s['iters'])), s['body'])
            else:
                add(bb.block(parallel=s['par']), s['body'])
    add(cb, prog['body'])
    return cb.build()


def build_q(prog, anon):
    from jaqalpaq.qsyntax import circuit

    @circuit(autoload_pulses=False)
    def f(Q):
        lets = {}
        for l in prog['lets']:
            lets[l['v']] = Q.let(render.s_ix(l['val']), name=None if l['v'] in anon else l['v'])
        regs = {}

        def ixv(x):
            return lets[x['v']] if x['k'] == 'let' else render.s_ix(x)
        for r in prog['regs']:
            regs[r['v']] = Q.register(ixv(r['size']), name=None if r['v'] in anon else r['v'])

        def argv(a):
            if a['k'] == 'qubit':
                return regs[a['base']['v']][ixv(a['idx'])]
            return ixv(a)

        def add(stmts):
            for s in stmts:
                if s['k'] == 'gate':
                    getattr(Q, s['v'])(*[argv(a) for a in s['args']])
                elif s['k'] == 'loop':
                    with Q.loop(ixv(s['count'])):
                        add(s['body']['body'])
                elif s['sub']:
                    with Q.subcircuit(ixv(s['iters'])):
                        add(s['body'])
                elif s['par']:
                    with Q.parallel():
                        add(s['body'])
                else:
                    with Q.sequential():
                        add(s['body'])
        add(prog['body'])
    return f()


def run_front(job):
    prog = job['prog']
    text = render.render_prog(prog)
    head, _, _ = text.partition('\n'.join(render.render_prog(dict(prog, body=[])).splitlines()) + '\n')
    hdr = render.render_prog(dict(prog, body=[]))
    wrapped_text = hdr + 'prepare_all\n' + text[len(hdr):] + 'measure_all\n'
    t, ct = passes.outcome(lambda: passes.parse_prog(prog, text))
    w, cw = passes.outcome(lambda: passes.parse_prog(prog, wrapped_text))
    b, cbb = passes.outcome(lambda: build_oo(prog))
    q, cq = passes.outcome(lambda: build_q(prog, []))
    qa, _ = (passes.outcome(lambda: build_q(prog, job['anon'])) if job['anon'] else ({'cls': 'none', 'prog': passes.EMPTY_PROG, 'msg': ''}, None))
    return {'id': job['id'], 'text': t, 'builder': b, 'q': q, 'qa': qa, 'wrapped': w,
            'eq_tb': bool(ct is not None and cbb is not None and ct == cbb),
            'eq_q_plain': bool(ct is not None and cq is not None and ct == cq),
            'eq_q_wrapped': bool(cw is not None and cq is not None and cw == cq),
            'anon': job['anon'], 'users': [n for n in ['a', '__r0', '__c0', 'q'] if n not in job['anon']],
            'src': text, 'msgs': [t['msg'], b['msg'], q['msg'], qa['msg']]}


def main(tier):
    impl.guard_repo()
    rep = core.Report(PROP, tier)
    rng = random.Random(core.seed())
    wd = core.workdir(PROP)
    jobs = []
    for name, consts, budget in CONFIGS[tier]:
        progs = passes.enumerate_programs(rep, name, passes.ast_cfg(*consts), wd, budget=budget)
        rep.cov.setdefault('enumerated_programs', {})[name] = progs.total
        if len(progs) > budget:
            progs = rng.sample(progs, budget)
            rep.cov['exhaustive'] = False
        for n, p in enumerate(progs):
            jobs.append({'id': '%s/%d' % (name, n), 'prog': p, 'anon': ANON[n % len(ANON)]})
    rep.phase('tlc_enumeration')
    recs = core.pool_map(run_front, jobs, chunksize=100)
    rep.phase('replay')
    verdicts, stats = core.validate('Conform_Front', recs, wd, shard_size=1500)
    rep.phase('tlc_validation')
    for r in recs:
        r['text_src'] = r['src']
    rep.add_validation('front', [dict(r, text=r['src'] + ' | anonymous: %s | %s' % (r['anon'], r['msgs'])) for r in recs], verdicts, stats)
    rep.cov['rule'] = ('complete behaviours of the builder machine over lets (user names a, __r0, __c0), one let-sized register, '
                       'gates with numeric / qubit / let arguments, nested seq/par, loops and subcircuits with literal and let '
                       'counts; each rendered as text, CircuitBuilder calls and Q-syntax calls (also with some names left '
                       'anonymous); non-trivial = distinct programs containing a block')
    rep.cov['distinct_nontrivial'] = len({repr(j['prog']['body']) for j in jobs if "'k': 'blk'" in repr(j['prog']['body'])
                                          or "'k': 'loop'" in repr(j['prog']['body'])})
    rep.cov.setdefault('exhaustive', True)
    for r in recs[0:len(recs):max(1, len(recs) // 3)][:3]:
        rep.sample({'text': r['src'], 'anonymous': r['anon'], 'outcomes': [r['text']['cls'], r['builder']['cls'], r['q']['cls'], r['qa']['cls']],
                    'failing_clauses': verdicts.get(r['id'], {}).get('clauses', [])})
    rep.assumptions += ['harness/c17.py build_oo / build_q drive the object-oriented builder and the Q-syntax from the same AST']
    core.cleanup(PROP)
    return rep.finish()
