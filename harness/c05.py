"""C05 - let substitution (with overrides) preserves meaning in the chosen environment."""
from . import passes

PROP = 'C05'
CONFIGS = {
    'quick': [('lets', ('H_L', 'M_L', 'T_L', 'O_L', 2, 3), 2500)],
    'thorough': [('lets', ('H_L', 'M_L', 'T_L', 'O_L', 3, 3), 40000)],
}
POOL = [0, 1, 2, 3, 1.5, 2.0]
OWNED = {'accepted', 'no_let_refs', 'meaning_mod_sub', 'sub_annotations', 'registers', 'macros_kept',
         'lets_kept', 'natives_kept', 'imports_carried', 'refs_follow_decls'}


def owned(site):
    if site == 'parse':
        return set()                      # binding by the parser is C07's business
    return OWNED


def sites(prog, rng):
    return [('fill_in_let', o) for o in passes.override_choices(prog, rng, POOL, 7)]


def nontrivial(prog):
    """programs that refer to a constant somewhere in the body, a macro or a declaration"""
    return "'k': 'let'" in repr(prog['body']) + repr(prog['macros']) + repr(prog['regs'])


def main(tier):
    return passes.run_property(
        PROP, tier, CONFIGS, sites, owned, nontrivial,
        'complete programs of the AstEnum builder machine over a header that uses constants as register size, alias '
        'bounds/index, gate argument, qubit index, loop count, subcircuit count, inside a macro and shadowed by a '
        'parameter, each crossed with the empty override and 7 override dictionaries over values {0,1,2,3,1.5,2.0}; '
        'non-trivial = distinct programs that refer to a constant', variants=('edge',))
