"""C11 - analyses and transformations never modify their input circuit.

spec -> code: TLC enumerates every history of the JaqalLib machine with Chain = FALSE (every call applied to the one
shared object, handle 0) over five transformations and four analyses, checking the frame condition InputUnchanged on
the machine; the harness replays each history on ONE circuit object per history.
code -> spec: after every call the shared object is snapshotted (projection of constants, registers, macros with
bodies, native gate table, imports, body + repr + == against a reference parse) and the call's result is compared
with the result of the same call on a freshly parsed copy; TLC (Conform_Lib, kind "shared") validates the action
property InputUnchanged and SameAsFresh on every step."""
import json
import random

import numpy

from . import core, passes, impl, project, render, execrun

PROP = 'C11'
CONFIGS = {
    'quick': ([('mixed', ('H_X', 'M_X', 'T_X', 'O_X', 2, 3), 24)], 3),
    'thorough': ([('mixed', ('H_X', 'M_X', 'T_X', 'O_X', 3, 3), 100)], 4),
}
# L / L2: let substitution under two override dictionaries that name the SAME constants with different values;
# S / S2: subcircuit expansion with the circuit's own and with caller-supplied prepare / measure definitions
LIB_CFG = ('SPECIFICATION Spec\nCONSTANTS\n Transforms = {"A", "L", "L2", "M", "S", "S2", "T"}\n Analyses = {"U", "G", "E", "O"}\n'
           ' MaxLen = %d\n Chain = FALSE\nINVARIANT Emit\nPROPERTY InputUnchanged\n')
OVR = {'a': 2}
OVR2 = {'a': 1}


def graph_print(root):
    """Generic fingerprint of everything reachable from an object: type names, attribute names (instance dictionaries
    and slots), container shapes and primitive values, objects numbered in traversal order.  No Jaqal knowledge: it
    exists so that an attribute added to, or changed on, any reachable object shows up in the snapshot comparison."""
    import hashlib
    import types
    seen = {}
    h = hashlib.blake2b(digest_size=16)

    def put(x):
        h.update(x.encode('utf8', 'replace') + b';')

    def walk(o, depth):
        if o is None or isinstance(o, (bool, int, float, complex, str, bytes)):
            put('%s=%r' % (type(o).__name__, o))
            return
        if id(o) in seen:
            put('@%d' % seen[id(o)])
            return
        seen[id(o)] = len(seen)
        if depth > 40:
            put('deep')
            return
        if isinstance(o, (types.FunctionType, types.BuiltinFunctionType, types.MethodType, type, types.ModuleType)):
            put('fn:%s' % getattr(o, '__qualname__', getattr(o, '__name__', '?')))
            return
        if isinstance(o, numpy.ndarray):
            put('nd:%s:%s' % (o.shape, hashlib.blake2b(o.tobytes(), digest_size=8).hexdigest()))
            return
        if isinstance(o, dict):
            put('dict%d{' % len(o))
            for k, v in o.items():
                walk(k, depth + 1)
                walk(v, depth + 1)
            put('}')
            return
        if isinstance(o, (list, tuple)):
            put('%s%d[' % (type(o).__name__, len(o)))
            for v in o:
                walk(v, depth + 1)
            put(']')
            return
        if isinstance(o, (set, frozenset)):
            put('set%d' % len(o))
            for v in sorted(o, key=repr):
                walk(v, depth + 1)
            return
        put('obj:%s{' % type(o).__name__)
        names = set(getattr(o, '__dict__', {}))
        for klass in type(o).__mro__:
            sl = klass.__dict__.get('__slots__', ())
            names.update([sl] if isinstance(sl, str) else sl)
        for nm in sorted(names):
            if nm in ('__dict__', '__weakref__'):
                continue
            try:
                v = getattr(o, nm) if nm not in getattr(o, '__dict__', {}) else o.__dict__[nm]
            except AttributeError:
                continue
            put('.' + nm)
            walk(v, depth + 1)
        put('}')
    walk(root, 0)
    return h.hexdigest()


def histories(rep, wd, maxlen):
    res = core.run_tlc('JaqalLib', LIB_CFG % maxlen, wd)
    rep.add_model_check('JaqalLib[shared object, 9 operations, MaxLen=%d] InputUnchanged' % maxlen, res)
    out = set()
    for line in res['out'].splitlines():
        if line.startswith('<<"HIST", '):
            out.add(tuple(json.loads(json.loads(line[len('<<"HIST", '):].rstrip()[:-2]))))
    return sorted(h for h in out if h)


def call(op, circ, seed):
    """perform one library call; return a JSON-able summary of its result"""
    from jaqalpaq.core.algorithm import (expand_macros, fill_in_let, expand_subcircuits, get_used_qubit_indices,
                                        normalize_blocks_with_unitary_timing)
    from jaqalpaq.core.algorithm.fill_in_map import fill_in_map
    from jaqalpaq.generator import generate_jaqal_program
    from jaqalpaq.run import run_jaqal_circuit
    from jaqalpaq.core.result import parse_jaqal_output_list

    def summary():
        if op == 'A':
            return project.circuit(expand_macros(circ))
        if op == 'L':
            return project.circuit(fill_in_let(circ, override_dict=dict(OVR)))
        if op == 'L2':
            return project.circuit(fill_in_let(circ, override_dict=dict(OVR2)))
        if op == 'S2':
            from . import gates
            busy = gates.busy_gates()
            from jaqalpaq.core.gatedef import BusyGateDefinition
            return project.circuit(expand_subcircuits(circ, prepare_def=BusyGateDefinition('prepare_hw'), measure_def=BusyGateDefinition('measure_hw')))
        if op == 'M':
            return project.circuit(fill_in_map(circ))
        if op == 'S':
            return project.circuit(expand_subcircuits(circ))
        if op == 'T':
            return project.circuit(normalize_blocks_with_unitary_timing(circ))
        if op == 'U':
            return {k: sorted(v) for k, v in get_used_qubit_indices(circ).items()}
        if op == 'G':
            return generate_jaqal_program(circ)
        if op == 'E':
            o = execrun.observe(lambda: run_jaqal_circuit(circ), seed=seed)
            return {k: o[k] for k in ('cls', 'family', 'subs', 'readouts')}
        if op == 'O':
            o = execrun.observe(lambda: parse_jaqal_output_list(circ, [0, '10', 1, 0, '00', 1, 0, 0]), seed=seed)
            return {k: o[k] for k in ('cls', 'family', 'readouts')}
        raise ValueError(op)
    r, e = impl.with_cpu_limit(summary, seconds=4)
    if e is not None:
        return {'error': 'timeout' if isinstance(e, impl.Timeout) else impl.classify_exc(e)}
    return r


def run_history(job):
    prog, hist = job['prog'], job['hist']
    text = render.render_prog(prog)
    if job.get('route') == 'builder':
        # programs the text grammar cannot express (same-type blocks nested directly): built through the S-expression API
        from jaqalpaq.core.circuitbuilder import build
        from . import gates
        sx = render.sexpr_prog(prog)
        text = 'builder: ' + repr(sx)
        inject = gates.select([n['v'] for n in prog['natives']]) if prog['natives'] else None
        mk = lambda: build(render.sexpr_prog(prog), inject_pulses=inject)
    else:
        mk = lambda: passes.parse_prog(prog, text)
    try:
        shared = mk()
        ref = mk()
    except Exception:
        return None
    start = passes.compress(project.circuit(shared))
    repr0 = repr(shared)
    graph0 = graph_print(shared)
    calls = []
    for n, op in enumerate(hist):
        res_shared = call(op, shared, job['seed'] + n)
        fresh = mk()
        res_fresh = call(op, fresh, job['seed'] + n)
        snap = passes.compress(project.circuit(shared))
        calls.append({'op': op, 'snap_eq': bool(shared == ref), 'snap_same_repr': repr(shared) == repr0, 'snap': snap,
                      'snap_same_graph': graph_print(shared) == graph0,
                      'same_as_fresh': json.dumps(res_shared, sort_keys=True, default=str) == json.dumps(res_fresh, sort_keys=True, default=str)})
    return {'id': job['id'], 'kind': 'shared', 'start': start, 'calls': calls, 'text': text + ' | history: ' + ''.join(hist)}


def main(tier):
    impl.guard_repo()
    rep = core.Report(PROP, tier)
    rng = random.Random(core.seed())
    wd = core.workdir(PROP)
    cfgs, maxlen = CONFIGS[tier]
    hists = histories(rep, wd, maxlen)
    # memory: every call record carries a snapshot of the whole circuit; all histories up to length 3 are kept, the
    # (thousands of) length-4 histories are sampled
    long_ = [h for h in hists if len(h) > 3]
    if len(long_) > 1500:
        hists = [h for h in hists if len(h) <= 3] + rng.sample(long_, 1500)
        rep.cov['exhaustive'] = False
    jobs = []
    for name, consts, budget in cfgs:
        progs = passes.enumerate_programs(rep, name, passes.ast_cfg(*consts), wd, budget=budget)
        rep.cov.setdefault('enumerated_programs', {})[name] = progs.total
        progs = [p for p in progs if p['natives']]          # the emulator needs a native gate set
        if len(progs) > budget:
            progs = rng.sample(progs, budget)
            rep.cov['exhaustive'] = False
        for n, p in enumerate(progs):
            for m, h in enumerate(hists):
                jobs.append({'id': '%s/%d/h%d' % (name, n, m), 'prog': p, 'hist': h, 'seed': n * 1000 + m})
    # deep alternating sequential / parallel nestings (TLC simulation of the builder machine, no native gate set): the
    # operations that need none, the same pass twice on one object (a statement list shared between input and output
    # only shows when the pass runs again)
    deep = passes.enumerate_programs(rep, 'nestings-deep', passes.ast_cfg('H_T', 'M_E0', 'T_T', 'O_TD', 8, 4), wd,
                                     sim=(700, 40) if tier == 'quick' else (4000, 50), budget=450 if tier == 'quick' else 3000)
    for n, p in enumerate(deep):
        for m, h in enumerate([('T', 'T'), ('T', 'G', 'T'), ('T', 'U')]):
            jobs.append({'id': 'nestings-deep/%d/h%d' % (n, m), 'prog': p, 'hist': h, 'seed': n * 10 + m})
    # macro bodies with same-type blocks nested directly and parameter-free parts (builder route): what an expansion shares
    # with the definition must not be edited in place
    free = passes.enumerate_programs(rep, 'free-nesting-builder', passes.ast_cfg('H_X', 'M_XF', 'T_XF', 'O_XF', 2, 4), wd,
                                     budget=150 if tier == 'quick' else 2000)
    for n, p in enumerate(x for x in free if x['natives']):
        for m, h in enumerate([('A',), ('A', 'A'), ('A', 'G'), ('A', 'T'), ('A', 'U'), ('L', 'A')]):
            jobs.append({'id': 'free-nesting-builder/%d/h%d' % (n, m), 'prog': p, 'hist': h, 'seed': n * 10 + m, 'route': 'builder'})
    rep.phase('tlc_enumeration')
    recs = [r for r in core.pool_map(run_history, jobs, chunksize=50) if r]
    rep.phase('replay')
    verdicts, stats = core.validate('Conform_Lib', recs, wd, shard_size=1500)
    rep.phase('tlc_validation')
    rep.add_validation('shared', recs, verdicts, stats)
    rep.cov['histories'] = len(hists)
    rep.cov['library_calls_replayed'] = sum(len(r['calls']) for r in recs)
    rep.cov['rule'] = ('every history (all sequences with repetition of the 9 operations up to length %d) replayed on one shared '
                       'circuit object per (program, history); non-trivial = distinct (program, history) pairs with >= 2 calls '
                       'of which at least one is a transformation' % maxlen)
    rep.cov['distinct_nontrivial'] = sum(1 for j in jobs if len(j['hist']) >= 2 and any(o[0] in 'ALMST' for o in j['hist']))
    rep.cov.setdefault('exhaustive', True)
    for r in recs[0:len(recs):max(1, len(recs) // 3)][:3]:
        rep.sample({'program_and_history': r['text'], 'per_call': [[c['op'], c['snap_eq'], c['same_as_fresh']] for c in r['calls']],
                    'failing_clauses': verdicts.get(r['id'], {}).get('clauses', [])})
    rep.assumptions += ['a mutation is observable through the projection, repr() or == of the shared object',
                        'emulation results are compared under the same numpy seed']
    core.cleanup(PROP)
    return rep.finish()
