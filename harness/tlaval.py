"""Parser for TLA+ values as printed by TLC (records, tuples, sets, strings, ints, booleans)
and for TLC state dumps.  No semantics here: it only turns TLC's text into Python data."""
import re

_tok = re.compile(r'\s*(<<|>>|\|->|:>|@@|\[|\]|\{|\}|\(|\)|,|"(?:[^"\\]|\\.)*"|-?\d+|TRUE|FALSE|[A-Za-z_][A-Za-z0-9_]*)')


def _unescape(s):
    return s.replace('\\"', '"').replace('\\\\', '\\')


def parse(s):
    toks = _tok.findall(s)
    pos = 0

    def val():
        nonlocal pos
        t = toks[pos]
        pos += 1
        if t == '<<':
            out = []
            while toks[pos] != '>>':
                out.append(val())
                if toks[pos] == ',':
                    pos += 1
            pos += 1
            return out
        if t == '[':
            out = {}
            while toks[pos] != ']':
                k = toks[pos]
                pos += 1
                assert toks[pos] == '|->', toks[max(0, pos - 3):pos + 3]
                pos += 1
                out[k] = val()
                if toks[pos] == ',':
                    pos += 1
            pos += 1
            return out
        if t == '{':
            out = []
            while toks[pos] != '}':
                out.append(val())
                if toks[pos] == ',':
                    pos += 1
            pos += 1
            return out
        if t == '(':
            # function printed as (k :> v @@ k :> v)
            out = {}
            while toks[pos] != ')':
                k = val()
                assert toks[pos] == ':>'
                pos += 1
                out[k if not isinstance(k, list) else tuple(k)] = val()
                if toks[pos] == '@@':
                    pos += 1
            pos += 1
            return out
        if t[0] == '"':
            return _unescape(t[1:-1])
        if t == 'TRUE':
            return True
        if t == 'FALSE':
            return False
        if re.fullmatch(r'-?\d+', t):
            return int(t)
        return t

    return val()


def read_dump(path):
    """Yield one dict (variable -> value) per state of a `tlc -dump` file."""
    buf = []
    with open(path) as fh:
        for line in fh:
            if line.startswith('State '):
                continue
            if line.strip() == '':
                if buf:
                    yield _state(''.join(buf))
                    buf = []
                continue
            buf.append(line)
    if buf:
        yield _state(''.join(buf))


def _state(s):
    d = {}
    parts = re.split(r'(?:^|\n)/\\ (\w+) = ', s)
    if len(parts) == 1:
        m = re.match(r'\s*(\w+) = (.*)', s, re.S)
        if m:
            d[m.group(1)] = parse(m.group(2))
        return d
    it = iter(parts[1:])
    for name in it:
        d[name] = parse(next(it))
    return d


def balanced_values(text, prefix):
    """Find every `prefix`-started tuple <<"prefix", ...>> in TLC stdout (possibly interleaved
    lines from several workers) by bracket matching; returns parsed values."""
    out = []
    needle = re.compile(r'<<\s*"%s"\s*,' % re.escape(prefix))
    i = 0
    while True:
        m = needle.search(text, i)
        if not m:
            break
        j = m.start()
        depth = 0
        k = j
        instr = False
        while k < len(text):
            c = text[k]
            if instr:
                if c == '\\':
                    k += 1
                elif c == '"':
                    instr = False
            elif c == '"':
                instr = True
            elif text.startswith('<<', k):
                depth += 1
                k += 1
            elif text.startswith('>>', k):
                depth -= 1
                k += 1
                if depth == 0:
                    break
            k += 1
        out.append(parse(text[j:k + 1]))
        i = k + 1
    return out
