from . import execprops


def main(tier):
    return execprops.main('C12', tier)
