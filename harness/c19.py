"""C19 - unit-timing normalisation preserves the lock-step schedule."""
from . import passes

PROP = 'C19'
CONFIGS = {
    'quick': [('nestings', ('H_T', 'M_E0', 'T_T', 'O_T', 4, 4), 6000),
              ('loops-in-par', ('H_T', 'M_E0', 'T_TL', 'O_TL', 5, 5), 4000),
              ('nestings-deep', ('H_T', 'M_E0', 'T_T', 'O_TD', 8, 4), 6000, (1500, 40)),
              ('free-nesting-builder', ('H_T', 'M_E0', 'T_TL', 'O_TLA', 4, 4), 3000)],
    'thorough': [('nestings', ('H_T', 'M_E0', 'T_T', 'O_T', 6, 5), 150000),
                 ('loops-in-par', ('H_T', 'M_E0', 'T_TL', 'O_TL', 7, 6), 100000),
                 ('nestings-deep', ('H_T', 'M_E0', 'T_T', 'O_TD', 10, 5), 100000, (30000, 60)),
                 ('free-nesting-builder', ('H_T', 'M_E0', 'T_TL', 'O_TLA', 6, 5), 60000)],
}
OWNED = {'error_type', 'loop_in_par_rejected', 'accepted', 'flat', 'schedule', 'sub_annotations', 'header_carried', 'imports_carried'}


def owned(site):
    return set() if site == 'parse' else OWNED


def nontrivial(prog):
    r = repr(prog['body'])
    return "'par': True" in r and r.count("'k': 'blk'") >= 2


def stratum(line):
    """programs with a loop AND a parallel block (the only ones the loop-in-parallel rule can speak about) get half of the
    budget; the test is on TLC's own JSON line"""
    return '\\"k\\":\\"loop\\"' in line and '\\"par\\":true' in line


def main(tier):
    return passes.run_property(
        PROP, tier, CONFIGS, lambda p, rng: [('unit_timing', []), ('unit_timing_again', [])], owned, nontrivial,
        'complete programs of the AstEnum machine with alternating sequential / parallel nesting to depth 4, unequal '
        'branch lengths, empty blocks, subcircuit blocks and loops (also inside parallel blocks: must be rejected); '
        'non-trivial = distinct programs with a parallel block and at least one more block',
        strata=(stratum, {True: 0.5, False: 0.5}), variants=('edge',))
