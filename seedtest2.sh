#!/bin/bash
# ./seedtest2.sh <patch.diff> <prop> [<prop> ...] : like seedtest.sh but WITHOUT touching /repo: the patch is applied in a
# scratch worktree of /repo's HEAD and the checks import jaqalpaq from there (VERIF_REPO_SRC).  Used while a background
# run needs /repo untouched.  Work files, evidence and replays of these runs go to a scratch directory (VERIF_SCRATCH).
patch="$(realpath "$1")"; shift
wt=/tmp/wt_seedtest_$$
scratch=/tmp/verif_scratch_$$
mkdir -p $scratch
git -C /repo worktree add -q $wt HEAD || exit 2
trap 'git -C /repo worktree remove --force '$wt'; git -C /repo worktree prune; rm -rf '$scratch EXIT
(cd $wt && git apply "$patch") || { echo "patch does not apply"; exit 2; }
cd "$(dirname "$0")"
for p in "$@"; do
  out=/tmp/seed_$$_$p.out
  VERIF_SCRATCH=$scratch VERIF_REPO_SRC=$wt/src ./check $p > $out 2>&1; rc=$?
  echo "== $p rc=$rc : $(grep -c '^VIOLATION' $out) violation line(s)"
  grep -A1 '^VIOLATION' $out | grep 'site=' | awk '{print $1, $2}' | sort | uniq -c | head -8
  tail -1 $out | cut -c1-200
  rm -f $out
done
