#!/bin/bash
# ./seedtest2.sh <patch.diff> <prop> [<prop> ...] : like seedtest.sh but WITHOUT touching /repo: the patch is applied in a
# scratch worktree of /repo's HEAD and the checks import jaqalpaq from there (VERIF_REPO_SRC).  Used while a background
# run needs /repo untouched.  Evidence files written by these runs describe the seeded tree: restore them afterwards.
patch="$(realpath "$1")"; shift
wt=/tmp/wt_seedtest_$$
git -C /repo worktree add -q $wt HEAD || exit 2
trap 'git -C /repo worktree remove --force '$wt'; git -C /repo worktree prune' EXIT
(cd $wt && git apply "$patch") || { echo "patch does not apply"; exit 2; }
cd "$(dirname "$0")"
for p in "$@"; do
  out=/tmp/seed_$p.out
  VERIF_REPO_SRC=$wt/src ./check $p > $out 2>&1; rc=$?
  echo "== $p rc=$rc : $(grep -c '^VIOLATION' $out) violation line(s)"
  grep -A1 '^VIOLATION' $out | grep 'site=' | awk '{print $1, $2}' | sort | uniq -c | head -8
  tail -1 $out | cut -c1-200
done
