#!/bin/bash
# run every quick (or given tier) check on the current tree (PROPS="C01 C05" selects); one summary line per check
cd "$(dirname "$0")"
tier=${1:-quick}
for p in ${PROPS:-C01 C02 C03 C04 C05 C06 C07 C08 C09 C10 C11 C12 C13 C14 C15 C16 C17 C18 C19 C20}; do
  s=$(date +%s)
  ./check $p --tier $tier > /tmp/all_$$_$p.out 2>&1; rc=$?
  e=$(date +%s)
  echo "$p rc=$rc $((e-s))s : $(tail -1 /tmp/all_$$_$p.out | cut -c1-170)"
done
